#!/usr/bin/env python3
"""Imports property-preserving changes written by a sub-agent into /verif/neutral/<ID>/ after confirming
here that the patch applies to the clean tree and that the unedited suite passes with it.

usage: tools/neutral_import.py <agent worktree> <id prefix>
"""
import json, os, re, shutil, subprocess, sys
V = os.path.dirname(os.path.dirname(os.path.abspath(__file__)))
FILE_PROPS = {
    "varintBitmap": ["C08", "C18", "C14", "C15"],
    "varintDict": ["C13", "C14", "C15", "C17", "C18"],
    "varintElias": ["C13", "C14", "C15", "C17"],
    "varintTagged": ["C14", "C15", "C17"],
    "varintBP128": ["C13", "C15", "C17"],
    "varintFloat": ["C15", "C17", "C18"],
    "varintPFOR": ["C13", "C15", "C17", "C18"],
    "varintAdaptive": ["C13", "C15", "C17", "C18"],
    "varintFOR": ["C13", "C15", "C17"],
    "varintRLE": ["C13", "C14", "C15", "C17"],
    "varintGroup": ["C13", "C15", "C17"],
    "varintDelta": ["C15", "C17"],
    "varintPacked": ["C09", "C17"],
    "varintDimension": ["C10", "C09"],
    "varintExternal": ["C15", "C17"],
    "varintChained": ["C15", "C17"],
    "varintBitstream": ["C17"],
}


def sh(cmd, cwd):
    return subprocess.run(cmd, cwd=cwd, shell=True, stdout=subprocess.PIPE, stderr=subprocess.STDOUT, text=True)


def main():
    wt, prefix = sys.argv[1], sys.argv[2]
    out = os.path.join(wt, "out")
    for name in sorted(os.listdir(out)):
        src = os.path.join(out, name)
        patch = os.path.join(src, "patch.diff")
        if not os.path.exists(patch):
            continue
        ident = "%s-%s" % (prefix, name)
        sh("git checkout -- . && git clean -fdq -e out", wt)
        r = sh("git apply %s" % patch, wt)
        if r.returncode != 0:
            print(ident, "patch does not apply:", r.stdout[-300:])
            continue
        files = sh("git diff --name-only", wt).stdout.split()
        if any(not f.startswith("src/") for f in files):
            print(ident, "touches files outside src/:", files)
        r = sh("rm -rf _nb && cmake -S . -B _nb -DCMAKE_BUILD_TYPE=Release >/dev/null 2>&1 && cmake --build _nb -j16 >/dev/null 2>&1 && ctest --test-dir _nb -j8 --timeout 900 2>&1 | tail -3", wt)
        ok = "100% tests passed" in r.stdout
        m = re.search(r"(\d+)% tests passed, (\d+) tests failed out of (\d+)", r.stdout)
        suite = "%s/%s passed" % (int(m.group(3)) - int(m.group(2)), m.group(3)) if m else "build failed"
        sh("rm -rf _nb && git checkout -- .", wt)
        props = []
        for f in files:
            stem = os.path.basename(f).split(".")[0]
            for k, v in FILE_PROPS.items():
                if stem.startswith(k):
                    props += [p for p in v if p not in props]
        readme = open(os.path.join(src, "README.md"), errors="replace").read() if os.path.exists(os.path.join(src, "README.md")) else ""
        what = next((l.strip("# ").strip() for l in readme.splitlines() if l.strip()), "")
        print(ident, files, suite, props)
        if not ok:
            print("   NOT imported (suite)")
            continue
        dst = os.path.join(V, "neutral", ident)
        os.makedirs(dst, exist_ok=True)
        shutil.copy(patch, os.path.join(dst, "patch.diff"))
        open(os.path.join(dst, "README.md"), "w").write(readme)
        json.dump({"id": ident, "properties": sorted(props), "files": files, "what": what[:300], "suite_with_change": suite,
                   "written_by": "sub-agent given only the property text and a scratch worktree, asked for a change that keeps the property true",
                   "scale": 0.5}, open(os.path.join(dst, "meta.json"), "w"), indent=1)


if __name__ == "__main__":
    main()
