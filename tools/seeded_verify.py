#!/usr/bin/env python3
"""Confirms a sub-agent's seeded change in its scratch worktree: the demo passes on the clean
tree, the patch applies, the unedited test suite passes with it, the demo fails with it.
Then stores it under /verif/seeded/<ID>/ (patch.diff, demo.c, README.md, meta.json)."""
import json, os, shutil, subprocess, sys
V = os.path.dirname(os.path.dirname(os.path.abspath(__file__)))

DEMOS = {
 "c08": "cc -I src {demo} src/varintBitmap.c -o {bin}",
 "c09": "cc -I src {demo} -o {bin}",
 "c10": "cc -I src {demo} src/varintDimension.c src/varintExternal.c src/varintTagged.c -lm -o {bin}",
 "c13/m1": "cc -g -O1 -fsanitize=address -Isrc {demo} src/varintBP128.c src/varintTagged.c -o {bin}",
 "c13/m2": "cc -g -O1 -fsanitize=address -Isrc {demo} src/varintRLE.c src/varintExternal.c src/varintTagged.c -o {bin}",
 "c14/m1": "cc -g -O1 -fsanitize=address -Isrc {demo} src/varintBitmap.c -o {bin}",
 "c14/m2": "cc -g -O1 -fsanitize=address -Isrc {demo} src/varintDict.c src/varintTagged.c src/varintExternal.c -o {bin}",
 "c15/m1": "cc -O1 -Isrc -o {bin} {demo} src/varintFloat.c src/varintExternal.c -lm",
 "c15/m2": "cc -O1 -Isrc -o {bin} {demo} src/varintAdaptive.c src/varintDelta.c src/varintFOR.c src/varintPFOR.c src/varintDict.c src/varintBitmap.c src/varintExternal.c src/varintTagged.c -lm",
 "c17/m1": "clang -O1 -g -fsanitize=thread -pthread -Isrc {demo} src/varintPFOR.c src/varintTagged.c src/varintExternal.c -o {bin}",
 "c17/m2": "clang -O1 -g -DNDEBUG -fsanitize=thread -pthread -Isrc {demo} src/varintElias.c -o {bin}",
 "c18/m1": "gcc -g -O1 -fsanitize=address -fno-omit-frame-pointer -Isrc -Wl,--wrap=malloc,--wrap=calloc,--wrap=realloc,--wrap=free {demo} src/varintDict.c src/varintTagged.c src/varintExternal.c -o {bin}",
 "c18/m2": "gcc -g -O1 -fsanitize=address -fno-omit-frame-pointer -Isrc -Wl,--wrap=malloc,--wrap=calloc,--wrap=realloc,--wrap=free {demo} src/varintFloat.c src/varintExternal.c -lm -o {bin}",
}

def sh(cmd, cwd, timeout=900):
    r = subprocess.run(cmd, shell=True, cwd=cwd, stdout=subprocess.PIPE, stderr=subprocess.STDOUT, text=True, timeout=timeout)
    return r.returncode, r.stdout

ROUND2 = [
 # id, property, worktree, subdir, demo build command (run from the worktree root)
 ("C18-r2m1", "C18", "/tmp/mut2-c18", "OUT/m1", "gcc -g -fsanitize=address -Isrc -I{d} {d}/demo.c src/varintBitmap.c src/varintExternal.c -Wl,--wrap=malloc,--wrap=calloc,--wrap=realloc,--wrap=free -o {bin}"),
 ("C18-r2m2", "C18", "/tmp/mut2-c18", "OUT/m2", "gcc -g -fsanitize=address -Isrc -I{d} {d}/demo.c src/varintDict.c src/varintExternal.c src/varintTagged.c -Wl,--wrap=malloc,--wrap=calloc,--wrap=realloc,--wrap=free -o {bin}"),
 ("C18-r2m3", "C18", "/tmp/mut2-c18", "OUT/m3", "gcc -g -fsanitize=address -Isrc -I{d} {d}/demo.c src/varintBitmap.c src/varintExternal.c -Wl,--wrap=malloc,--wrap=calloc,--wrap=realloc,--wrap=free -o {bin}"),
 ("C14-r2m1", "C14", "/tmp/mut2-c14", "OUT/m1", "cc -g -O1 -fsanitize=address -fno-omit-frame-pointer -Isrc {d}/demo.c src/varintDict.c src/varintTagged.c src/varintExternal.c -o {bin}"),
 ("C14-r2m2", "C14", "/tmp/mut2-c14", "OUT/m2", "cc -g -O1 -fsanitize=address -fno-omit-frame-pointer -Isrc {d}/demo.c src/varintBitmap.c -o {bin}"),
 ("C13-r2m3", "C13", "/tmp/mut2-c14", "OUT/m3", "cc -g -O1 -fsanitize=address -fno-omit-frame-pointer -Isrc {d}/demo.c src/varintBP128.c src/varintTagged.c -o {bin}"),
 ("C15-r2m1", "C15", "/tmp/mut2-c15", "OUT/m1", "cc -O1 -g -Isrc {d}/demo.c src/varintPFOR.c src/varintTagged.c src/varintExternal.c -o {bin}"),
 ("C15-r2m2", "C15", "/tmp/mut2-c15", "OUT/m2", "cc -O1 -g -Isrc {d}/demo.c src/varintAdaptive.c src/varintDelta.c src/varintFOR.c src/varintPFOR.c src/varintDict.c src/varintBitmap.c src/varintTagged.c src/varintExternal.c -o {bin}"),
 ("C17-r2m3", "C17", "/tmp/mut2-c15", "OUT/m3", "clang -O1 -g -fsanitize=thread -pthread -Isrc {d}/demo.c src/varintDict.c src/varintTagged.c src/varintExternal.c -o {bin}"),
 ("C17-r2m4", "C17", "/tmp/mut2-c15", "OUT/m4", "clang -O1 -g -fsanitize=thread -pthread -Isrc {d}/demo.c src/varintElias.c -o {bin}"),
 ("C09-r2m1", "C09", "/tmp/mut2-c09", "OUT/m1", "cc -O1 -w -I src {d}/demo.c -o {bin}"),
 ("C09-r2m2", "C09", "/tmp/mut2-c09", "OUT/m2", "cc -O1 -w -I src {d}/demo.c -o {bin}"),
 ("C10-r2m3", "C10", "/tmp/mut2-c09", "OUT/m3", "cc -O1 -w -I src {d}/demo.c src/varintDimension.c src/varintExternal.c src/varintTagged.c -lm -o {bin}"),
 ("C10-r2m4", "C10", "/tmp/mut2-c09", "OUT/m4", "cc -O1 -w -I src {d}/demo.c src/varintDimension.c src/varintExternal.c src/varintTagged.c -lm -o {bin}"),
 ("C08-r2m1", "C08", "/tmp/mut2-c08", "OUT/m1", "cc -I src {d}/demo.c src/varintBitmap.c -o {bin}"),
 ("C08-r2m2", "C08", "/tmp/mut2-c08", "OUT/m2", "cc -I src {d}/demo.c src/varintBitmap.c -o {bin}"),
 ("C08-r2m3", "C08", "/tmp/mut2-c08", "OUT/m3", "cc -I src {d}/demo.c src/varintBitmap.c -o {bin}"),
 ("C14-r3m1", "C14", "/tmp/mut3-c14", "OUT/m1", "cc -fsanitize=address -g -O1 -Isrc {d}/demo.c src/varintDict.c src/varintTagged.c src/varintExternal.c -o {bin}"),
 ("C14-r3m2", "C14", "/tmp/mut3-c14", "OUT/m2", "cc -fsanitize=address -g -O1 -Isrc {d}/demo.c src/varintBitmap.c -o {bin}"),
 ("C13-r3m3", "C13", "/tmp/mut3-c14", "OUT/m3", "cc -fsanitize=address -g -O1 -Isrc {d}/demo.c src/varintAdaptive.c src/varintDelta.c src/varintFOR.c src/varintPFOR.c src/varintDict.c src/varintBitmap.c src/varintTagged.c src/varintExternal.c -o {bin}"),
 ("C13-r3m4", "C13", "/tmp/mut3-c14", "OUT/m4", "cc -fsanitize=address -g -O1 -Isrc {d}/demo.c src/varintRLE.c src/varintTagged.c -o {bin}"),
 ("C09-r3m1", "C09", "/tmp/mut3-c09", "OUT/m1", "gcc -O2 -w -Isrc {d}/demo.c -o {bin}"),
 ("C09-r3m2", "C09", "/tmp/mut3-c09", "OUT/m2", "gcc -O2 -w -Isrc {d}/demo.c -o {bin}"),
 ("C10-r3m3", "C10", "/tmp/mut3-c09", "OUT/m3", "gcc -O2 -w -Isrc {d}/demo.c src/varintDimension.c src/varintExternal.c -o {bin}"),
 ("C10-r3m4", "C10", "/tmp/mut3-c09", "OUT/m4", "gcc -O2 -w -mf16c -Isrc {d}/demo.c src/varintDimension.c src/varintExternal.c -o {bin}"),
 ("C18-r3m1", "C18", "/tmp/mut3-c18", "OUT/m1", "gcc -g -O1 -fsanitize=address -Isrc -I{d} {d}/demo.c src/varintTagged.c src/varintExternal.c src/varintExternalBigEndian.c src/varintChained.c src/varintChainedSimple.c src/varintDelta.c src/varintFOR.c src/varintPFOR.c src/varintGroup.c src/varintDict.c src/varintRLE.c src/varintElias.c src/varintBP128.c src/varintFloat.c src/varintAdaptive.c src/varintBitmap.c src/varintDimension.c -Wl,--wrap=malloc,--wrap=calloc,--wrap=realloc,--wrap=free -lm -o {bin}"),
 ("C18-r3m2", "C18", "/tmp/mut3-c18", "OUT/m2", "gcc -g -O1 -fsanitize=address -Isrc -I{d} {d}/demo.c src/varintTagged.c src/varintExternal.c src/varintExternalBigEndian.c src/varintChained.c src/varintChainedSimple.c src/varintDelta.c src/varintFOR.c src/varintPFOR.c src/varintGroup.c src/varintDict.c src/varintRLE.c src/varintElias.c src/varintBP128.c src/varintFloat.c src/varintAdaptive.c src/varintBitmap.c src/varintDimension.c -Wl,--wrap=malloc,--wrap=calloc,--wrap=realloc,--wrap=free -lm -o {bin}"),
 ("C18-r3m3", "C18", "/tmp/mut3-c18", "OUT/m3", "gcc -g -O1 -fsanitize=address -Isrc -I{d} {d}/demo.c src/varintTagged.c src/varintExternal.c src/varintExternalBigEndian.c src/varintChained.c src/varintChainedSimple.c src/varintDelta.c src/varintFOR.c src/varintPFOR.c src/varintGroup.c src/varintDict.c src/varintRLE.c src/varintElias.c src/varintBP128.c src/varintFloat.c src/varintAdaptive.c src/varintBitmap.c src/varintDimension.c -Wl,--wrap=malloc,--wrap=calloc,--wrap=realloc,--wrap=free -lm -o {bin}"),
 ("C15-r3m1", "C15", "/tmp/mut3-c15", "OUT/m1", "gcc -O2 -I src -o {bin} {d}/demo.c src/varintPFOR.c src/varintTagged.c src/varintExternal.c"),
 ("C15-r3m2", "C15", "/tmp/mut3-c15", "OUT/m2", "gcc -O2 -I src -o {bin} {d}/demo.c src/varintFloat.c src/varintExternal.c src/varintDelta.c -lm"),
 ("C17-r3m3", "C17", "/tmp/mut3-c15", "OUT/m3", "clang -g -O1 -fsanitize=thread -I src -o {bin} {d}/demo.c src/varintDict.c src/varintTagged.c src/varintExternal.c -lpthread"),
 ("C17-r3m4", "C17", "/tmp/mut3-c15", "OUT/m4", "clang -g -O1 -fsanitize=thread -I src -o {bin} {d}/demo.c src/varintBP128.c src/varintTagged.c src/varintExternal.c -lpthread"),
 ("C08-x1", "C08", "/tmp/mut2-c08", "OUT/x1", "cc -I src {d}/demo.c src/varintBitmap.c -o {bin}"),
 ("C08-x2", "C08", "/tmp/mut2-c08", "OUT/x2", "cc -I src {d}/demo.c src/varintBitmap.c -o {bin}"),
 ("C08-r3m1", "C08", "/tmp/mut2-c08", "OUT/m1", "cc -I src {d}/demo.c src/varintBitmap.c -o {bin}"),
 ("C08-r3m2", "C08", "/tmp/mut2-c08", "OUT/m2", "cc -I src {d}/demo.c src/varintBitmap.c -o {bin}"),
 ("C08-r3m3", "C08", "/tmp/mut2-c08", "OUT/m3", "cc -I src {d}/demo.c src/varintBitmap.c -o {bin}"),
 ("C13-r2m4", "C13", "/tmp/mut2-c14", "OUT/m4", "cc -g -O1 -fsanitize=address -fno-omit-frame-pointer -Isrc {d}/demo.c src/varintElias.c -o {bin}"),
]


def verify_entry(ident, prop, wt, sub, cmd):
    d = os.path.join(wt, sub)
    binp = os.path.join(sub, "demo_bin")
    build = cmd.format(d=sub, bin=binp)
    # demo sources may hard-code absolute includes; run from the worktree root
    sh("git checkout -- . ", wt)
    rec = {"id": ident, "property": prop, "breaks_property": prop}
    rc, o = sh(build + " && ./" + binp, wt)
    rec["demo_on_clean_tree"] = "exit %d" % rc
    rc_a, o_a = sh("git apply " + os.path.join(sub, "patch.diff"), wt)
    rec["patch_applies"] = rc_a == 0
    rc_t, o_t = sh("cmake -G Ninja -S . -B _build -DCMAKE_BUILD_TYPE=RelWithDebInfo >/dev/null && cmake --build _build >/dev/null 2>&1 && ctest --test-dir _build -j8 2>&1 | tail -3", wt)
    rec["suite_with_change"] = "13/13 passed" if "100% tests passed, 0 tests failed out of 13" in o_t else "FAILED: " + o_t[-200:]
    rc2, o2 = sh(build + " && ./" + binp, wt)
    rec["demo_with_change"] = "exit %d" % rc2
    rec["demo_output_with_change"] = [l for l in o2.splitlines() if l.strip()][-3:]
    sh("git checkout -- . && rm -f " + binp, wt)
    rec["confirmed"] = (rc == 0 and rc_a == 0 and rc2 != 0 and rec["suite_with_change"].startswith("13/13"))
    rec["demo_build_cmd"] = cmd.format(d=".", bin="demo")
    rec["confirmed_how"] = "tools/seeded_verify.py in the scratch worktree: demo exits 0 on the clean tree; patch applies; unedited suite 13/13 with the change; demo fails with the change"
    print(ident, "confirmed" if rec["confirmed"] else "NOT CONFIRMED", rec["demo_on_clean_tree"], rec["demo_with_change"], rec["suite_with_change"])
    if rec["confirmed"]:
        dst = os.path.join(V, "seeded", ident)
        os.makedirs(dst, exist_ok=True)
        for f in os.listdir(d):
            if f in ("patch.diff", "demo.c", "README.md") or f.endswith(".h"):
                shutil.copy(os.path.join(d, f), os.path.join(dst, f))
        json.dump(rec, open(os.path.join(dst, "meta.json"), "w"), indent=1)
    return rec


def verify_auto(ident, prop, wt, sub, round_text):
    """Build command taken from the `BUILD: ` line of the agent's README.md; the demo is copied to
    the worktree root and built there."""
    import re
    d = os.path.join(wt, sub)
    readme = open(os.path.join(d, "README.md"), errors="replace").read()
    m = re.search(r"BUILD:\s*`?([^`\n]+)`?", readme)
    if not m:
        print(ident, "no BUILD line")
        return None
    build = m.group(1).strip()
    out = re.search(r"-o\s+(\S+)", build)
    binp = out.group(1) if out else "a.out"
    sh("git checkout -- . ", wt)
    copied = []
    for f in os.listdir(d):
        if f.endswith(".c") or f.endswith(".h"):
            shutil.copy(os.path.join(d, f), os.path.join(wt, f))
            copied.append(f)
    rec = {"id": ident, "property": prop, "breaks_property": prop}
    run = build + " && ./" + binp.lstrip("./")
    rc, o = sh(run, wt)
    rec["demo_on_clean_tree"] = "exit %d" % rc
    rc_a, o_a = sh("git apply " + os.path.join(sub, "patch.diff"), wt)
    rec["patch_applies"] = rc_a == 0
    rc_t, o_t = sh("rm -rf _vb && cmake -S . -B _vb -DCMAKE_BUILD_TYPE=Release >/dev/null && cmake --build _vb -j16 >/dev/null 2>&1 && ctest --test-dir _vb -j8 --timeout 900 2>&1 | tail -3", wt)
    rec["suite_with_change"] = "13/13 passed" if "100% tests passed, 0 tests failed out of 13" in o_t else "FAILED: " + o_t[-200:]
    rc2, o2 = sh(run, wt)
    rec["demo_with_change"] = "exit %d" % rc2
    rec["demo_output_with_change"] = [l for l in o2.splitlines() if l.strip()][-3:]
    sh("git checkout -- . && rm -rf _vb " + binp + " " + " ".join(copied), wt)
    rec["confirmed"] = (rc == 0 and rc_a == 0 and rc2 != 0 and rec["suite_with_change"].startswith("13/13"))
    rec["demo_build_cmd"] = build
    rec["round"] = round_text
    cond = re.search(r"(?is)(condition[^\n]*\n+)(.{20,600}?)(\n\n|\Z)", readme)
    rec["needs_to_manifest"] = " ".join((cond.group(2) if cond else readme[:400]).split())[:500]
    rec["confirmed_how"] = "tools/seeded_verify.py auto, in the scratch worktree: demo exits 0 on the clean tree; patch applies; unedited suite 13/13 with the change; demo fails with the change"
    print(ident, "confirmed" if rec["confirmed"] else "NOT CONFIRMED", rec["demo_on_clean_tree"], rec["demo_with_change"], rec["suite_with_change"])
    if not rec["confirmed"]:
        print("   clean:", o[-300:].replace("\n", " | "))
        print("   changed:", o2[-300:].replace("\n", " | "))
    if rec["confirmed"]:
        dst = os.path.join(V, "seeded", ident)
        os.makedirs(dst, exist_ok=True)
        for f in os.listdir(d):
            if f in ("patch.diff", "demo.c", "README.md") or f.endswith(".h"):
                shutil.copy(os.path.join(d, f), os.path.join(dst, f))
        json.dump(rec, open(os.path.join(dst, "meta.json"), "w"), indent=1)
    return rec


def main():
    if len(sys.argv) > 1 and sys.argv[1] == "auto":
        # auto <ID> <property> <worktree> <subdir> [round text]
        verify_auto(sys.argv[2], sys.argv[3], sys.argv[4], sys.argv[5], sys.argv[6] if len(sys.argv) > 6 else "")
        return 0
    if len(sys.argv) > 1 and sys.argv[1] == "round2":
        sel = sys.argv[2:]
        for e in ROUND2:
            if sel and e[0] not in sel:
                continue
            verify_entry(*e)
        return 0
    results = []
    for pid in ["c08", "c09", "c10", "c13", "c14", "c15", "c17", "c18"]:
        wt = "/tmp/mut-" + pid
        for m in ["m1", "m2"]:
            d = os.path.join(wt, "OUT", m)
            key = pid + "/" + m
            cmd = DEMOS.get(key, DEMOS.get(pid))
            demo, binp = os.path.join("OUT", m, "demo.c"), os.path.join("OUT", m, "demo_bin")
            build = cmd.format(demo=demo, bin=binp)
            sh("git checkout -- . ", wt)
            rec = {"id": "%s-%s" % (pid.upper(), m), "property": pid.upper()}
            rc, o = sh(build + " && ./" + binp, wt)
            rec["demo_on_clean_tree"] = "exit %d" % rc
            rc_a, o_a = sh("git apply " + os.path.join("OUT", m, "patch.diff"), wt)
            rec["patch_applies"] = rc_a == 0
            rc_t, o_t = sh("cmake -G Ninja -S . -B _build -DCMAKE_BUILD_TYPE=RelWithDebInfo >/dev/null && cmake --build _build >/dev/null 2>&1 && ctest --test-dir _build -j8 2>&1 | tail -3", wt)
            rec["suite_with_change"] = "13/13 passed" if "100% tests passed, 0 tests failed out of 13" in o_t else "FAILED: " + o_t[-200:]
            rc2, o2 = sh(build + " && ./" + binp, wt)
            rec["demo_with_change"] = "exit %d" % rc2
            rec["demo_output_with_change"] = [l for l in o2.splitlines() if l.strip()][-3:]
            sh("git checkout -- . && rm -f " + binp, wt)
            rec["confirmed"] = (rc == 0 and rc_a == 0 and rc2 != 0 and rec["suite_with_change"].startswith("13/13"))
            rec["demo_build_cmd"] = cmd.format(demo="demo.c", bin="demo")
            results.append(rec)
            print(rec["id"], "confirmed" if rec["confirmed"] else "NOT CONFIRMED", rec["demo_on_clean_tree"], rec["demo_with_change"], rec["suite_with_change"])
            if rec["confirmed"]:
                dst = os.path.join(V, "seeded", rec["id"])
                os.makedirs(dst, exist_ok=True)
                for f in ["patch.diff", "demo.c", "README.md"]:
                    shutil.copy(os.path.join(d, f), os.path.join(dst, f))
                json.dump(rec, open(os.path.join(dst, "meta.json"), "w"), indent=1)
    return 0

if __name__ == "__main__":
    sys.exit(main())
