#!/usr/bin/env python3
"""Regenerates /verif/MANIFEST.json from the table below (keeps it valid at all times)."""
import json, os, sys
V = os.path.dirname(os.path.dirname(os.path.abspath(__file__)))

NA = {
 "C01": "Pure function of one value per scalar family (2^64 inputs x build configurations): no schedule, fault, residue or history exists for a simulator to vary; sampling values would be input generation under another name (DESIGN 3/C01).",
 "C02": "decode(encode(a)) = a is a pure function of the array; the quantifier is inputs x SIMD/scalar builds, nothing a scheduler or fault injector reaches. Round trips serve only as oracles inside C17/C18 runs (DESIGN 3/C02).",
 "C03": "Bytes written vs. the sizing function is a pure function of the input array; violating inputs are extreme-value corner cases, i.e. input search, not simulation (DESIGN 3/C03).",
 "C04": "Byte-exactness against an independent reference encoder over all values is translation validation / enumeration; nothing nondeterministic is involved (DESIGN 3/C04).",
 "C05": "A relation over pairs of inputs (memcmp order = numeric order); pure, no execution environment to perturb (DESIGN 3/C05).",
 "C06": "The selection decision tree is a pure function of the array; its only environment-dependent branch (CountUnique falling back when its allocation fails) is simulated under C18 (DESIGN 3/C06).",
 "C07": "Bit-exactness and relative-error bounds are arithmetic properties of each input double; pure (DESIGN 3/C07).",
 "C11": "set(offset,width,value) then get is a pure function of (prior words, offset, width, value); no history beyond one write, no fault. Its concurrency consequence is exercised by C17 tasks (DESIGN 3/C11).",
 "C12": "A pure function of (stored bytes, amount, grow flag); no allocation, no I/O, no schedule (DESIGN 3/C12).",
 "C16": "Reported fields vs. ground truth are pure functions of the encoded array; no fault, schedule or history participates (DESIGN 3/C16).",
}
PENDING = "claimed in DESIGN.md; its engine is not built yet in this tree, so no check is registered (nothing is claimed for it until the check exists)"

CHECKS = {
 "C18": dict(engine="E-ALLOC alloc.stateless + alloc.bitmap + alloc.dict", category="fault_enumeration",
   technique="deterministic simulation with fault injection: k-th allocation of the call fails, every k",
   text="Allocation-failure injection through a compile-time allocator seam: for every sampled allocating call (dictionary encode/size/stats/decode, the PFOR analyse->size->encode protocol, float encode/decode, adaptive analyse/encode/decode under each forced encoding) and for bitmap and dictionary object histories, every k is enumerated: the k-th allocation request issued during the targeted call returns NULL. Each faulted execution is compared with the fault-free one: no crash/ASan report/step-budget overrun, no block left live that is not owned by a live object, no double free, no write beyond the advertised destination that the fault-free call does not make, and the outcome is the failure indication or a fully correct result (bytes equal to the fault-free result or decoding to the input); long-lived objects must stay internally consistent and the history continues against them. Enumeration over k is complete per sampled call; the calls and histories themselves are sampled.",
   design_ref="DESIGN.md 2.3, 3/C18",
   note="Trusted: the allocator shim (sim/seams/alloc.cc), ASan, the reference models. Single failure per targeted call. void bitmap mutators that cannot report a partial effect are listed as open known findings (known_findings.jsonl) and printed as KNOWN-FINDING."),
 "C14": dict(engine="E-PIPE pipe.input", category="fault_enumeration",
   technique="deterministic simulation with fault injection: storage faults between real encoder and real decoder",
   text="Producer/medium/consumer simulation: the real encoder's bytes pass through a fault-injecting medium (every truncation point of encodings <= 512 bytes, seeded bit flips, boundary-byte overwrites, torn rewrites, zeroed tails, duplicated chunks, inflated length fields, hostile strings) and are handed to every length-taking decoder on an exact-size heap copy, so that a read at or beyond the declared size, a write at or beyond the output capacity, an allocation request above 8 MiB + 64 x input length, a crash, or more than 5e7 instrumented steps is detected deterministically. varintTaggedGet's complete (first byte, n) grid is enumerated, checking 'cut short => length 0'. Truncation is enumerated completely per sampled encoding; corruption is seeded exploration.",
   design_ref="DESIGN.md 2.6, 3/C14",
   note="Trusted: ASan redzones (byte granularity), the allocation cap and step budget in the harness. Elias inputs are judged at byte granularity. varintBP128GetCount is included (it is told its input size)."),
 "C13": dict(engine="E-PIPE pipe.capacity", category="fault_enumeration",
   technique="deterministic simulation with fault injection: consumer-side capacity shortfall, every capacity enumerated",
   text="For every produced valid encoding of N elements and every capacity m in [0, N] (N <= 300; boundary grid above; (start, size) grid for the block reader) each capacity-taking decoder decodes into an exact-size heap block of m elements followed by the ASan redzone; nothing at or beyond element m may be written, the returned count must be <= m, and the returned elements must be a prefix of the encoded sequence (covers both documented behaviours, return 0 or return a prefix). The shortfall dimension is enumerated completely per encoding; encodings are the sampled workload.",
   design_ref="DESIGN.md 2.6, 3/C13",
   note="Trusted: ASan redzones; the baseline rule (inputs whose full-capacity decode does not reproduce the input are skipped as C02/C06 matters). Inputs carry 64 bytes of slack because over-reads of valid data are not this property's subject."),
 "C15": dict(engine="E-RESIDUE residue", category="exploration",
   technique="deterministic simulation: same call under simulator-prepared stack/heap/buffer residue, call histories and a fresh process; differential oracle",
   text="Every sampled encoder/decoder call of the anchored files (adaptive auto and forced, FOR scalar/batch with meta NULL/zeroed/pre-analysed, PFOR, float, dictionary, bitmap encode/decode, RLE, BP128) and of the remaining encoders (group, delta signed/unsigned, Elias gamma/delta, the tagged/external/chained scalar writers) is executed on a simulator-owned stack in ten contexts that differ only in hidden state: zeroed memory; seeded garbage with a history of other API calls on the same stack; stack, heap and buffers filled with the call's own count as 64-/32-bit words, with ones, with a small width; the same API called just before with other data of equal length (and with the same data); input and output buffers moved to other addresses and alignment classes (multiples of 8 bytes) inside their blocks; and a freshly spawned process with ASLR on. Return value, produced bytes and decoded values must be identical in all contexts; a crash or damaged canary in one context only is a disagreement. The library is built by the pinned compiler (gcc) at -O2 and -O0, unsanitised, because stack layout decides which residue a local sees. Seeded exploration over (call, arguments, context).",
   design_ref="DESIGN.md 2.8, 3/C15",
   note="Trusted: the stack switch and fill code (sim/seams/stackctx.cc), the allocator shim. Not compared: bytes beyond the returned length, struct padding, metadata out-fields. Caller-owned in/out metadata is only passed in documented states."),
 "C09": dict(engine="E-HIST hist.packed + hist.hugepacked + E-TRACE footprint", category="exploration",
   technique="deterministic simulation: seeded operation histories against a reference bit-stream image, access tracer as footprint monitor",
   text="Operation histories (set/get/increment/halve; sorted insert, delete-member, member, lower bound; positional insert/delete) on 115 generated instantiations of varintPacked.h - every bit width 1-32 with default 32-bit slots, compact slots, explicit 8/16/64-bit slots, the micro-promotion variant used by varintDimension.c and five instantiations with 8-/16-bit length types (PACK_MAX_ELEMENTS), wherever an element never spans more than two slots; arrays from one slot period up to 70000 elements; the *Bytes convenience forms (member, sorted insert, delete-member, positional insert and delete) included. After each operation the complete storage block (guards, all elements, spare bits) is compared with an independently computed little-endian bit-stream image, return values with a sorted-vector model (member = first equal element or -1), and for the single-element operations the traced accesses must lie inside the slots the element occupies. A second engine addresses element indexes whose bit offset exceeds 2^32 (instantiations with a 32-bit length type, storage as an untouched NORESERVE mapping of up to 16 GiB between guard pages, sparse model, alias probes). This family decides the history and footprint parts of the statement; the inputs x configurations part is covered only as far as the swarm makes every (width, slot type, position mod slot period) occur.",
   design_ref="DESIGN.md 3/C09",
   note="Trusted: the reference bit-stream model, the generated shim (tools/gen_packed_shim.py), clang's TSan instrumentation pass for which accesses are seen, the mem* wrappers. SetIncr only in its stated domain."),
 "C10": dict(engine="E-HIST hist.matrix + hist.hugematrix", category="exploration",
   technique="deterministic simulation: seeded cell-write histories against a byte image model under ASan",
   text="create(rows, cols) for all 72 header shapes (row width 0-8 x column width 1-8) followed by histories of cell writes and reads of one entry kind (bit set/clear/toggle, unsigned 1-8 bytes, float and double including signed zeros and NaN payloads, compared as stored bits), repeated writes to one cell, and re-use of the buffer by another matrix of the same width class whose header is copied in: the header must occupy exactly the announced number of bytes and hold the little-endian counts, the packed single-integer form must round-trip, every read must return the written value, toggle must return the previous value, set(false) must clear, and after every write the whole exact-size buffer must equal the model image so that no other cell and no header byte changed. A second engine addresses matrices of up to 1 GiB (cell indices beyond 2^32) on untouched NORESERVE mappings with a sparse model and alias probes; half-float entries are included when the CPU has F16C. History part of the statement; the pure header round trip over all 2^64 pairs is sampled, not enumerated.",
   design_ref="DESIGN.md 3/C10",
   note="Trusted: the byte image model; ASan redzones as guard. In hist.matrix bodies above 256 KiB are addressed in row 0 only; hist.hugematrix compares the written bytes, their neighbourhood and alias candidates rather than the whole body. Half-float entries need a CPU with F16C."),
 "C17": dict(engine="E-FIBER + E-TRACE fiber", category="exploration",
   technique="deterministic simulation: seeded fiber scheduler at compiler-inserted yield points + happens-before (vector clock) conflict detector, results compared with the run-alone execution",
   text="2-16 simulated threads (cooperative fibers) call the codecs documented as pure - scalar put/get of every family, delta, FOR, PFOR, group, dictionary (incl. a shared read-only prebuilt dictionary), RLE, Elias, BP128, float, adaptive, packed arrays and bitstreams on slot/word-disjoint slices of shared storage, adjacent exact-width cells of one buffer, queries on one shared read-only packed array, the analysis entry points - on shared inputs and private outputs. Library code is compiled with TSan's instrumentation pass but linked against the simulator's own callbacks, so every load, store, memcpy/memset and basic block is a yield point at which a seeded scheduler (random preemption, PCT, sequential) decides who runs. Oracles: byte-granular conflict detection (two tasks, same byte, at least one write, neither access happens-before the other by vector clocks over simulated mutex/spin/rwlock/once/atomics; per-task thread-local storage), every return value and output bit-identical to the same program run alone, shared inputs unchanged, no crash/deadlock/step overrun. Exploration over schedules: seeded search, evidence not proof.",
   design_ref="DESIGN.md 2.4, 2.5, 3/C17",
   note="Trusted: the fiber scheduler and shadow map (sim/seams/fiber.cc), clang's TSan instrumentation pass (which accesses are instrumented), llvm-symbolizer for naming conflict sites. Fibers are not hardware threads (no weak memory, no word tearing); the footprint-based detector makes a conflict visible in every schedule in which both tasks execute the code."),
 "C08": dict(engine="E-HIST hist.bitmap", category="exploration",
   technique="deterministic simulation: seeded operation histories against a reference set model",
   text="Seeded search over operation histories (add/remove/ranges/clear/clone/bulk add/set algebra/serialise+deserialise on a pool of three objects, biased to drive cardinality across 4096 and to hit run containers) executed against the real varintBitmap.c; after every operation the object's answers (return values, cardinality, emptiness, ascending duplicate-free iteration, array export, sampled and full membership sweeps, operands unchanged) are compared with a 65536-bit set model. The same histories run a second time against an unsanitised gcc -O2 build, where glibc hands a freed block straight back (ASan's quarantine never does), so library state keyed on a block's address meets a reused address. Exploration is the right level: the history space is unbounded, transitions depend on the path taken, and a clean batch is evidence over the seeds run, not proof.",
   design_ref="DESIGN.md 2.7, 3/C08",
   note="Trusted: the bitset model and comparison code in sim/engines/hist_bitmap.cc; ASan as memory monitor; the allocator shim in pass-through mode. The container type is read from the public struct only for reach counters and finding keys, never by the oracle. Histories are bounded (<= 40 ops quick, <= 80 thorough; 3 objects)."),
}

def main():
    props = [json.loads(l)["id"] for l in open(os.path.join(V, "properties.jsonl"))]
    checks = []
    na = []
    for p in props:
        if p in CHECKS:
            c = CHECKS[p]
            checks.append({
                "property_id": p,
                "quick_cmd": "./check %s --tier quick" % p,
                "thorough_cmd": "./check %s --tier thorough" % p,
                "evidence_file": "evidence/%s.json" % p,
                "replay_cmd_template": "./check %s --replay {path}" % p,
                "engine": c["engine"],
                "level_claimed": {"category": c["category"], "text": c["text"], "design_ref": c["design_ref"]},
                "level_note": c["note"],
                "technique": c["technique"],
            })
        else:
            na.append({"property_id": p, "reason": NA.get(p, PENDING)})
    m = {
        "version": 1,
        "setup_cmd": "./check build",
        "hooks": {
            "guard": "VARINT_VERIF_SIM",
            "enable": "no source hook exists: checks compile /repo/src/*.c themselves with `-include /verif/sim/seams/sim_seams.h` (allocator seam), sanitizer-coverage / TSan-instrumentation callbacks defined in /verif, and link-time --wrap; /repo is never edited for instrumentation",
            "baseline_off_cmd": "cmake --build /repo/_build && ctest --test-dir /repo/_build -j8 --timeout 900",
            "source_commits": [],
            "add_only": True,
        },
        "engines": [
            {"name": "E-HIST", "path": "sim/engines/hist_bitmap.cc", "serves_properties": ["C08", "C18"],
             "kind_free_text": "seeded operation histories against reference models, optional allocation faults"},
            {"name": "E-ALLOC", "path": "sim/engines/alloc_stateless.cc", "serves_properties": ["C18"],
             "kind_free_text": "allocator seam: k-th allocation request of a call fails, every k; leak/double-free accounting"},
            {"name": "E-ALLOC-DICT", "path": "sim/engines/alloc_dict.cc", "serves_properties": ["C18"],
             "kind_free_text": "dictionary object histories under allocation faults"},
            {"name": "E-RESIDUE", "path": "sim/seams/stackctx.cc + sim/engines/residue.cc", "serves_properties": ["C15"],
             "kind_free_text": "same call in contexts differing only in stack/heap/buffer residue, preceding calls, process image"},
            {"name": "E-HIST-PACKED", "path": "sim/engines/hist_packed.cc + sim/engines/hist_packed_huge.cc", "serves_properties": ["C09"],
             "kind_free_text": "packed-array histories vs reference bit-stream image + access footprint monitor"},
            {"name": "E-HIST-MATRIX", "path": "sim/engines/hist_matrix.cc + sim/engines/hist_matrix_huge.cc", "serves_properties": ["C10"],
             "kind_free_text": "dimension header + matrix cell histories vs byte image model"},
            {"name": "E-FIBER", "path": "sim/seams/fiber.cc + sim/engines/fiber_engine.cc", "serves_properties": ["C17"],
             "kind_free_text": "cooperative fibers with per-task thread-local storage, seeded scheduler at TSan-instrumentation yield points, byte-granular happens-before (vector clock) conflict detector, simulated mutex/spin/rwlock/once/atomics"},
            {"name": "E-PIPE", "path": "sim/engines/pipe.cc", "serves_properties": ["C13", "C14"],
             "kind_free_text": "producer (real encoder) -> fault-injecting medium -> consumer (real decoder on exact-size blocks)"},
        ],
        "checks": checks,
        "not_applicable": na,
        "notes": "Technique family: deterministic simulation with fault injection only. Every check rebuilds the library from /repo's working tree (content-hashed objects), runs seeded plans in in-process workers, and passes every candidate violation through a determinism + minimisation + fresh-process replay gate. Exit 2 means the simulator failed its own gate.",
    }
    json.dump(m, open(os.path.join(V, "MANIFEST.json"), "w"), indent=1)
    open(os.path.join(V, "MANIFEST.json"), "a").write("\n")

if __name__ == "__main__":
    main()
