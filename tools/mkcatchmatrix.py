#!/usr/bin/env python3
"""Rewrites DESIGN.md section 11 (which check catches which change) from the logs of
`./check drill`, `./check drill --seeded` and `./check drill --neutral`.

usage: tools/mkcatchmatrix.py <log file> [<log file> ...]
"""
import json, os, re, sys
V = os.path.dirname(os.path.dirname(os.path.abspath(__file__)))


def parse(logs):
    res = {}
    neutral = []
    for path in logs:
        txt = open(path, errors="replace").read()
        for m in re.finditer(r'^\[drill\] (\S+)\s+(C\d+) (\S+)\n\s+(?:(\d+)s\s+)?(.*)$', txt, re.M):
            res[m.group(1)] = (m.group(2), m.group(3), m.group(5).split(';')[0].strip())
        for m in re.finditer(r'^\[neutral\] (\S+)\s+(C\d+) (\S+)', txt, re.M):
            neutral.append((m.group(1), m.group(2), m.group(3)))
    return res, neutral


def main():
    res, neutral = parse(sys.argv[1:])
    drills = json.load(open(os.path.join(V, "drills/drills.json")))
    ntr = {d["name"]: d for d in json.load(open(os.path.join(V, "drills/neutral.json")))}
    nb = os.path.join(V, "neutral")
    for name in sorted(os.listdir(nb)) if os.path.isdir(nb) else []:
        mp = os.path.join(nb, name, "meta.json")
        if os.path.exists(mp):
            ntr[name] = {"what": "(sub-agent) " + json.load(open(mp)).get("what", "")}
    rows = []
    for d in sorted(drills, key=lambda d: (d["property"], d["name"])):
        r = res.get(d["name"])
        rows.append("| %s | %s | %s | %s | %s |" % (d["property"], d["name"], d["what"].replace("|", "/"),
                                                r[1] if r else "not run", (r[2] if r else "").replace("|", "/")))
    seeded = []
    base = os.path.join(V, "seeded")
    for name in sorted(os.listdir(base)):
        mp = os.path.join(base, name, "meta.json")
        if not os.path.exists(mp):
            continue
        m = json.load(open(mp))
        r = res.get(name)
        status = r[1] if r else m.get("check_run", {}).get("result", "not run")
        first = r[2] if r else (m.get("check_run", {}).get("summary", [""])[0].split(";")[0].strip())
        first = re.sub(r"^\d+s\s+", "", first)
        seeded.append("| %s | %s | %s | %s |" % (name, m.get("needs_to_manifest", "").replace("|", "/"), status, first.replace("|", "/")))
    last = {}
    for name, prop, status in neutral:
        last[(name, prop)] = status
    neutral = [(n, p_, st) for (n, p_), st in last.items()]
    nrows = []
    for name, prop, status in neutral:
        nrows.append("| %s | %s | %s | %s |" % (name, ntr.get(name, {}).get("what", "").replace("|", "/"), prop, status))
    caught = sum(1 for d in drills if res.get(d["name"], (0, ""))[1] == "CAUGHT")
    sc = sum(1 for l in seeded if "| CAUGHT |" in l)
    body = open(os.path.join(V, "tools/catchmatrix_template.md")).read()
    body = body.replace("@DRILLS@", "\n".join(rows)).replace("@SEEDED@", "\n".join(seeded)).replace("@NEUTRAL@", "\n".join(nrows))
    body = body.replace("@NDRILLS@", str(len(drills))).replace("@CAUGHT@", str(caught)).replace("@NSEEDED@", str(len(seeded))).replace("@SCAUGHT@", str(sc))
    body = body.replace("@NNEUTRAL@", str(len(nrows))).replace("@NQUIET@", str(sum(1 for n in neutral if n[2] == "QUIET")))
    p = os.path.join(V, "DESIGN.md")
    s = open(p).read()
    if "\n## 11. Which check catches which change" in s:
        s = s[:s.index("\n## 11. Which check catches which change")]
    open(p, "w").write(s.rstrip() + "\n\n" + body)
    print("drills %d/%d caught, seeded %d/%d caught, neutral %d rows" % (caught, len(drills), sc, len(seeded), len(nrows)))


if __name__ == "__main__":
    main()
