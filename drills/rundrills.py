#!/usr/bin/env python3
"""Sensitivity drills (DESIGN section 6): each drill is a small realistic edit that breaks one
claimed property.  A drill is applied to a scratch copy of /repo under /dev/shm (never /repo,
never /verif), the *quick* check of its property runs against the copy with its own build, out and
evidence directories, and must exit 1 with a VIOLATION line; the copy is removed afterwards.

  ./check drill            run all drills
  ./check drill NAME...    run the named drills
  ./check drill --list
"""
import json, os, re, shutil, subprocess, sys, tempfile, time

VERIF = os.path.dirname(os.path.dirname(os.path.abspath(__file__)))
REPO = os.environ.get("VERIF_REPO", "/repo")


def load():
    return json.load(open(os.path.join(VERIF, "drills", "drills.json")))


def run_one(d, keep=False):
    work = tempfile.mkdtemp(prefix="drill-", dir="/dev/shm")
    try:
        copy = os.path.join(work, "repo")
        os.makedirs(copy)
        subprocess.check_call(["rsync", "-a", "--exclude", "_build", "--exclude", ".git", REPO + "/", copy + "/"])
        if d.get("patch"):
            r0 = subprocess.run(["git", "apply", os.path.join(VERIF, d["patch"])], cwd=copy, stdout=subprocess.PIPE,
                                stderr=subprocess.STDOUT, text=True)
            if r0.returncode != 0:
                return "STALE", "patch does not apply: " + r0.stdout[-300:]
        for e in d.get("edits", []):
            path = os.path.join(copy, e["file"])
            s = open(path).read()
            if s.count(e["old"]) < 1:
                return "STALE", "pattern not found in %s: %r" % (e["file"], e["old"][:60])
            s = s.replace(e["old"], e["new"], e.get("count", 1))
            open(path, "w").write(s)
        env = dict(os.environ)
        env.update(VERIF_REPO=copy, VERIF_BUILD_DIR=os.path.join(work, "build"), VERIF_OUT_DIR=os.path.join(work, "out"),
                   VERIF_EVIDENCE_DIR=os.path.join(work, "evidence"), VERIF_QUICK_SCALE=str(d.get("scale", 1) * float(os.environ.get("DRILL_SCALE", "1"))))
        cmd = [os.path.join(VERIF, "check"), d["property"], "--tier", "quick"]
        if d.get("engine"):
            cmd += ["--engine", d["engine"]]
        t0 = time.time()
        r = subprocess.run(cmd, cwd=VERIF, env=env, stdout=subprocess.PIPE, stderr=subprocess.STDOUT, text=True)
        out = r.stdout
        viol = [l for l in out.splitlines() if l.startswith("VIOLATION ")]
        detail = [l for l in out.splitlines() if l.startswith("  class=")]
        if r.returncode == 1 and viol:
            # show the minimised replay
            rp = viol[0].split("replay=")[1]
            plan = ""
            try:
                plan = "".join(l for l in open(rp) if l.startswith("op ") or l.startswith("knob "))[:600]
            except OSError:
                pass
            return "CAUGHT", "%.0fs %s\n%s" % (time.time() - t0, "; ".join(detail[:3]), plan)
        return ("MISSED" if r.returncode == 0 else "BROKEN(rc=%d)" % r.returncode), out[-1500:]
    finally:
        if not keep:
            shutil.rmtree(work, ignore_errors=True)


def load_seeded():
    out = []
    base = os.path.join(VERIF, "seeded")
    for name in sorted(os.listdir(base)) if os.path.isdir(base) else []:
        mp = os.path.join(base, name, "meta.json")
        if os.path.exists(mp):
            m = json.load(open(mp))
            out.append({"name": name, "property": m["property"], "patch": os.path.join("seeded", name, "patch.diff"),
                        "what": "seeded change written by an independent sub-agent", "scale": 1, "_meta": mp})
    return out


def run_neutral(argv):
    """Semantics-preserving edits: every listed property's quick check must stay quiet (exit 0)."""
    items = json.load(open(os.path.join(VERIF, "drills", "neutral.json")))
    # property-preserving changes written by sub-agents: neutral/<ID>/{patch.diff,README.md,meta.json}
    base = os.path.join(VERIF, "neutral")
    for name in sorted(os.listdir(base)) if os.path.isdir(base) else []:
        mp = os.path.join(base, name, "meta.json")
        if os.path.exists(mp):
            m = json.load(open(mp))
            items.append({"name": name, "properties": m["properties"], "patch": os.path.join("neutral", name, "patch.diff"),
                          "what": m.get("what", ""), "scale": m.get("scale", 0.5)})
    names = [a for a in argv if not a.startswith("--")]
    props = [a for a in names if re.fullmatch(r"C\d+", a)]  # `./check drill --neutral C15`: only that property
    names = [a for a in names if a not in props]
    bad = 0
    total = 0
    for d in items:
        if names and d["name"] not in names:
            continue
        for prop in d["properties"]:
            if props and prop not in props:
                continue
            dd = dict(d)
            dd["property"] = prop
            status, info = run_one(dd)
            total += 1
            # for a neutral edit "MISSED" (exit 0, no VIOLATION) is the expected outcome
            ok = status == "MISSED"
            print("[neutral] %-36s %s %s" % (d["name"], prop, "QUIET" if ok else "ALARM(" + status + ")"))
            if not ok:
                bad += 1
                for l in info.splitlines()[:12]:
                    print("        " + l)
            sys.stdout.flush()
    print("[neutral] %d/%d quiet" % (total - bad, total))
    return 1 if bad else 0


def main(argv):
    if "--neutral" in argv:
        return run_neutral(argv)
    drills = load_seeded() if "--seeded" in argv else load()
    if "--list" in argv:
        for d in drills:
            print("%-40s %s  %s" % (d["name"], d["property"], d["what"]))
        return 0
    names = [a for a in argv if not a.startswith("--")]
    sel = [d for d in drills if not names or d["name"] in names or d["property"] in names]
    bad = 0
    for d in sel:
        status, info = run_one(d, keep="--keep" in argv)
        print("[drill] %-40s %s %s" % (d["name"], d["property"], status))
        for l in info.splitlines():
            print("        " + l)
        sys.stdout.flush()
        if status != "CAUGHT":
            bad += 1
        if d.get("_meta"):
            m = json.load(open(d["_meta"]))
            m["check_run"] = {"command": "./check %s --tier quick (against a scratch copy of /repo with the patch applied)" % d["property"],
                              "result": status, "summary": info.splitlines()[:12]}
            json.dump(m, open(d["_meta"], "w"), indent=1)
    print("[drill] %d/%d caught" % (len(sel) - bad, len(sel)))
    return 1 if bad else 0


if __name__ == "__main__":
    sys.exit(main(sys.argv[1:]))
