#include "shim_api.h"
#include "varintBitstream.h"

void shim_bitstream_set(uint64_t *dst, size_t bitOffset, size_t bits, uint64_t v) {
    varintBitstreamSet(dst, bitOffset, bits, v);
}
uint64_t shim_bitstream_get(const uint64_t *src, size_t bitOffset, size_t bits) {
    return varintBitstreamGet(src, bitOffset, bits);
}
