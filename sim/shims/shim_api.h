/* Flat C API over header-only (macro / static-function) parts of varint, so
 * that they are compiled as library code (instrumented like the files of /repo/src)
 * and callable from the C++ harness. */
#ifndef SHIM_API_H
#define SHIM_API_H
#include <stddef.h>
#include <stdint.h>
#ifdef __cplusplus
extern "C" {
#endif

/* split families: put returns the encoded length; get returns the length and stores the value */
size_t shim_split_put(int family, uint8_t *dst, uint64_t v);
size_t shim_split_get(int family, const uint8_t *src, uint64_t *v);
/* family: 0 split, 1 splitFull, 2 splitFullNoZero (v >= 1), 3 splitFull16 */

/* bitstream (uint64_t words) */
void shim_bitstream_set(uint64_t *dst, size_t bitOffset, size_t bits, uint64_t v);
uint64_t shim_bitstream_get(const uint64_t *src, size_t bitOffset, size_t bits);

/* packed arrays: one entry per generated instantiation */
struct shim_packed_cfg {
    const char *name;
    int bits;
    int slot_bytes;
    int compact;
    int micro; /* micro-promotion variant (as used by varintDimension.c) */
    void (*set)(void *, uint32_t, uint64_t);
    uint64_t (*get)(const void *, uint32_t);
    void (*set_incr)(void *, uint32_t, int64_t);
    void (*set_half)(void *, uint32_t);
    void (*insert)(void *, uint32_t len, uint32_t off, uint64_t);
    void (*insert_sorted)(void *, uint32_t len, uint64_t);
    void (*del)(void *, uint32_t len, uint32_t off);
    int (*del_member)(void *, uint32_t len, uint64_t);
    int64_t (*member)(const void *, uint32_t len, uint64_t);
    uint32_t (*lower_bound)(const void *, uint32_t len, uint64_t);
    /* the *Bytes convenience forms: the element count is derived from the storage size */
    int64_t (*member_bytes)(const void *, size_t bytes, uint64_t);
    void (*insert_sorted_bytes)(void *, size_t bytes, uint64_t);
    int (*del_member_bytes)(void *, size_t bytes, uint64_t);
    int max_elements; /* PACK_MAX_ELEMENTS of the instantiation, 0 if lengths are 32-bit */
    void (*insert_bytes)(void *, size_t bytes, uint32_t off, uint64_t);
    void (*del_bytes)(void *, size_t bytes, uint32_t off);
};
extern const struct shim_packed_cfg shim_packed_cfgs[];
extern const int shim_packed_ncfgs;

#ifdef __cplusplus
}
#endif
#endif
