#include "shim_api.h"
#include "varint.h"
#include "varintExternal.h"
#include "varintSplit.h"
#include "varintSplitFull.h"
#include "varintSplitFullNoZero.h"
#include "varintSplitFull16.h"

size_t shim_split_put(int family, uint8_t *dst, uint64_t v) {
    uint8_t len = 0;
    switch (family) {
    case 0: varintSplitPut_(dst, len, v); break;
    case 1: varintSplitFullPut_(dst, len, v); break;
    case 2: varintSplitFullNoZeroPut_(dst, len, v); break;
    default: varintSplitFull16Put_(dst, len, v); break;
    }
    return len;
}

size_t shim_split_get(int family, const uint8_t *src, uint64_t *out) {
    uint8_t len = 0;
    uint64_t v = 0;
    switch (family) {
    case 0: varintSplitGet_(src, len, v); break;
    case 1: varintSplitFullGet_(src, len, v); break;
    case 2: varintSplitFullNoZeroGet_(src, len, v); break;
    default: varintSplitFull16Get_(src, len, v); break;
    }
    *out = v;
    return len;
}
