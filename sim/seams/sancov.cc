// Sanitizer-coverage callbacks for the `asan` variant: pc-guards only count
// steps, which makes "terminates" a deterministic, replayable verdict.
#include <cstdint>
#include <unistd.h>

extern "C" {
extern volatile uint64_t sim_steps;
extern uint64_t sim_step_budget;

void __sanitizer_cov_trace_pc_guard_init(uint32_t *start, uint32_t *stop) {
    static uint32_t n;
    if (start == stop || *start) return;
    for (uint32_t *x = start; x < stop; x++) *x = ++n;
}

void __sanitizer_cov_trace_pc_guard(uint32_t *guard) {
    (void)guard;
    uint64_t s = sim_steps + 1;
    sim_steps = s;
    if (sim_step_budget && s > sim_step_budget) _exit(78);
}

__attribute__((used, visibility("default"))) const char *__asan_default_options(void) {
    return "exitcode=77:detect_leaks=0:handle_segv=1:allocator_may_return_null=1:"
           "abort_on_error=0:detect_stack_use_after_return=0:symbolize=1:"
           "malloc_context_size=3:print_summary=0";
}
}
