// E-FIBER + E-TRACE (DESIGN 2.4, 2.5): cooperative fibers whose every switch is
// decided by a seeded scheduler at compiler-inserted yield points, plus a
// byte-granular access tracer / conflict detector fed by the same hooks.
#pragma once
#include <cstdint>
#include <functional>
#include <map>
#include <string>
#include <vector>

namespace sim {
namespace fiber {

enum Strategy { RANDOM = 0, PCT = 1, SEQUENTIAL = 2, REPLAY = 3 };

struct Config {
    Strategy strategy = RANDOM;
    uint32_t preempt_den = 64;  // RANDOM: switch with probability 1/den per yield point
    int pct_d = 1;              // PCT: number of priority change points
    uint64_t seed = 1;
    uint64_t est_steps = 1000;  // PCT: change points are drawn from [1, est_steps]
    std::vector<uint64_t> replay; // REPLAY: flattened (step, task) pairs
    uint64_t step_budget = 200000000ULL;
    bool trace = true;
};

struct Conflict {
    uintptr_t addr = 0;
    int task_a = -1, task_b = -1; // a: earlier access, b: the access that found the conflict
    bool a_write = false, b_write = false;
    uintptr_t pc_a = 0, pc_b = 0;
};

struct Result {
    std::vector<uint64_t> switches;   // flattened (step, task) pairs actually taken
    uint64_t steps = 0;               // yield points executed
    uint64_t preemptions = 0;         // switches away from a task that had not finished
    uint64_t preempt_in_call = 0;     // ... while it was inside a library call
    uint64_t overlap_same_function = 0; // switches that left two tasks inside the same function
    std::vector<uintptr_t> overlap_functions;
    std::vector<Conflict> conflicts;  // first few
    uint64_t conflict_count = 0;
    bool deadlock = false;
    bool trace_overflow = false;
    uint64_t sched_hash = 0;          // hash of the switch list: "distinct interleaving" measure
    std::vector<uint64_t> site_pairs; // hashes of cross-task adjacent function pairs
};

// Runs the tasks as fibers under the scheduler.  Deterministic in (tasks, cfg).
Result run(const std::vector<std::function<void()>> &tasks, const Config &cfg);

// Marks the dynamic extent of a library call made by the current task.
void lib_enter();
void lib_exit();
int current_task(); // -1 outside run()
// A block obtained from / returned to the real allocator by harness code: its
// address may be reused by another task, which is ordered by the allocator.
void forget(const void *p, size_t n);

// Steps (yield points) executed outside run() since the last reset: used to
// size PCT change points from the "alone" pass.
uint64_t alone_steps();
void alone_steps_reset();
// step budget for library code running outside run() (0 = none): exceeding it exits with status 78
void alone_budget(uint64_t budget);

// Footprint monitor without fibers (C09): collect the accesses of a call.
struct Access {
    uintptr_t addr;
    uint32_t size;
    bool write;
};
void footprint_begin();
std::vector<Access> footprint_end();

std::string symbolize(uintptr_t pc); // function name (llvm-symbolizer on our own executable)

} // namespace fiber
} // namespace sim
