// Allocator seam: the simulator's side of sim_seams.h (DESIGN 2.3).
#pragma once
#include <cstddef>
#include <cstdint>
#include <map>
#include <string>
#include <vector>

namespace sim {
namespace alloc {

enum class Fill { Zero, Garbage, Pattern };

struct CallInfo {
    uint64_t requests = 0;      // allocation requests (malloc/calloc/realloc) issued
    bool fault_fired = false;   // request #fail_at was reached and refused
    std::string fault_site;     // function#ordinal of the refused request
    std::string fault_kind;     // malloc / calloc / realloc
    size_t fault_size = 0;
    bool cap_hit = false;       // a request above the cap was refused
    size_t cap_size = 0;
    std::string cap_site;
    bool bad_free = false;      // free/realloc of a pointer that is not live (double free)
    std::string bad_free_site;
    std::vector<std::string> request_sites; // site of each request in order
};

struct Block {
    size_t size;
    std::string site;
    uint64_t serial;
};

void reset_run();                    // forget everything (start of a run)
void begin_call(uint64_t fail_at);   // 0 = no injected failure
CallInfo end_call();
const CallInfo &current();
void set_fill(Fill f, uint64_t seed, uint64_t pattern = 0);
void set_cap(size_t bytes);          // 0 = none
size_t live_count();
const std::map<void *, Block> &live();
uint64_t serial();                   // serial number of the last block handed out
// blocks allocated after `since_serial` that are still live
std::vector<Block> live_since(uint64_t since_serial);
bool is_live(const void *p);           // allocated in this run, or kept from an earlier one
size_t kept_count();                   // blocks that outlived earlier runs (library-side caches)
bool is_kept(const void *p);
size_t size_of(const void *p);
void release(void *p);               // the harness frees a block the library returned

struct SiteInfo {
    std::string name; // function#ordinal
    std::string file;
    int line;
    int kind;
    uint64_t reached = 0, failed = 0;
};
std::vector<SiteInfo> sites();
std::string sites_json();

} // namespace alloc
} // namespace sim
