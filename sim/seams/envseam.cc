// Environment seam: process-wide sources of nondeterminism that the library does
// not use today but a change might start to use.  libc's PRNG is routed to a
// simulator-owned stream (link-time --wrap), so that a result which depends on it
// (a) differs between contexts that differ only in hidden state and (b) replays
// exactly from the plan.
#include "../core/prng.h"
#include <cstdint>

namespace sim {
static Rng g_env_rng(0x3e7);
static uint64_t g_env_draws = 0;
void env_reseed(uint64_t seed) {
    g_env_rng.reseed(seed ^ 0xe71a5eedULL);
    g_env_draws = 0;
}
uint64_t env_draws() { return g_env_draws; }
} // namespace sim

extern "C" {
int __wrap_rand(void) {
    sim::g_env_draws++;
    return (int)(sim::g_env_rng.next() & 0x7fffffff);
}
long __wrap_random(void) {
    sim::g_env_draws++;
    return (long)(sim::g_env_rng.next() & 0x7fffffff);
}
long __wrap_lrand48(void) {
    sim::g_env_draws++;
    return (long)(sim::g_env_rng.next() & 0x7fffffff);
}
double __wrap_drand48(void) {
    sim::g_env_draws++;
    return (double)(sim::g_env_rng.next() >> 11) / 9007199254740992.0;
}
// seeding by the library itself is honoured (the sequence after it is a function of the seed,
// as with libc); the stream stays simulator-owned, so interleaved users still disturb each other
void __wrap_srand(unsigned s) { sim::g_env_rng.reseed(0x5eed0000ULL ^ s); }
void __wrap_srandom(unsigned s) { sim::g_env_rng.reseed(0x5eed0000ULL ^ s); }
void __wrap_srand48(long s) { sim::g_env_rng.reseed(0x5eed4800ULL ^ (uint64_t)s); }
}
