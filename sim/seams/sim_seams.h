/* Forced-include seam header: every library translation unit is compiled with
 *   -include sim_seams.h
 * so that the library's allocation calls go through the simulator.  Nothing in
 * /repo is edited; with this header absent the library is unchanged.
 *
 * Each call site registers a static descriptor in the linker section
 * "sim_sites"; the simulator enumerates the section at start-up and therefore
 * knows every allocation site of the linked library, reached or not. */
#ifndef SIM_SEAMS_H
#define SIM_SEAMS_H
#include <stddef.h>
#include <stdlib.h>
#include <string.h>

#ifdef __cplusplus
extern "C" {
#endif

struct sim_site {
    const char *file;
    const char *func;
    int line;
    int kind; /* 0 malloc, 1 calloc, 2 realloc, 3 free */
};

void *sim_malloc_at(size_t n, const struct sim_site *s);
void *sim_calloc_at(size_t a, size_t b, const struct sim_site *s);
void *sim_realloc_at(void *p, size_t n, const struct sim_site *s);
void sim_free_at(void *p, const struct sim_site *s);

#ifdef __cplusplus
}
#endif

#ifndef SIM_SEAMS_NO_MACROS
#define SIM_SITE_(k)                                                           \
    static const struct sim_site sim_s_ = {__FILE__, __func__, __LINE__, k};   \
    static const struct sim_site *const sim_p_                                 \
        __attribute__((section("sim_sites"), used)) = &sim_s_
#define malloc(n) __extension__({ SIM_SITE_(0); sim_malloc_at((n), &sim_s_); })
#define calloc(a, b)                                                           \
    __extension__({ SIM_SITE_(1); sim_calloc_at((a), (b), &sim_s_); })
#define realloc(p, n)                                                          \
    __extension__({ SIM_SITE_(2); sim_realloc_at((p), (n), &sim_s_); })
#define free(p) __extension__({ SIM_SITE_(3); sim_free_at((p), &sim_s_); })
#endif

#endif
