// E-RESIDUE support (DESIGN 2.8): run calls on a simulator-prepared stack.
#pragma once
#include <cstdint>
#include <functional>
#include <vector>

namespace sim {
namespace stackctx {

enum Fill { ZERO, GARBAGE, WORD64, WORD32 };

// Prepares a fresh stack (whole region filled according to `fill`), then runs
// the calls one after the other on it, so that each call sees the frames its
// predecessors left behind.
void run(const std::vector<std::function<void()>> &calls, Fill fill, uint64_t seed_or_word);

} // namespace stackctx
} // namespace sim
