#include "stackctx.h"
#include "../core/prng.h"
#include <cstring>
#include <sys/mman.h>
#include <unistd.h>

extern "C" void sim_rctx_switch(void **save_sp, void *load_sp);
__asm__(".text\n"
        ".globl sim_rctx_switch\n"
        ".type sim_rctx_switch,@function\n"
        "sim_rctx_switch:\n"
        "  pushq %rbp\n  pushq %rbx\n  pushq %r12\n  pushq %r13\n  pushq %r14\n  pushq %r15\n"
        "  movq %rsp, (%rdi)\n"
        "  movq %rsi, %rsp\n"
        "  popq %r15\n  popq %r14\n  popq %r13\n  popq %r12\n  popq %rbx\n  popq %rbp\n"
        "  ret\n"
        ".size sim_rctx_switch, .-sim_rctx_switch\n");

namespace sim {
namespace stackctx {

static const size_t STACK_SIZE = 128 * 1024;
static char *g_stack = nullptr;
static void *g_main_sp = nullptr, *g_ctx_sp = nullptr;
static const std::vector<std::function<void()>> *g_calls = nullptr;

static void trampoline() {
    for (auto &c : *g_calls) c();
    sim_rctx_switch(&g_ctx_sp, g_main_sp);
    _exit(79); // not reached
}

void run(const std::vector<std::function<void()>> &calls, Fill fill, uint64_t w) {
    if (!g_stack) {
        g_stack = (char *)mmap(nullptr, STACK_SIZE + 4096, PROT_READ | PROT_WRITE,
                               MAP_PRIVATE | MAP_ANONYMOUS | MAP_STACK, -1, 0);
        mprotect(g_stack, 4096, PROT_NONE);
    }
    char *base = g_stack + 4096;
    switch (fill) {
    case ZERO: memset(base, 0, STACK_SIZE); break;
    case GARBAGE: {
        Rng r(w);
        for (size_t i = 0; i + 8 <= STACK_SIZE; i += 8) {
            uint64_t v = r.next();
            memcpy(base + i, &v, 8);
        }
        break;
    }
    case WORD64:
        for (size_t i = 0; i + 8 <= STACK_SIZE; i += 8) memcpy(base + i, &w, 8);
        break;
    case WORD32: {
        uint32_t v = (uint32_t)w;
        for (size_t i = 0; i + 4 <= STACK_SIZE; i += 4) memcpy(base + i, &v, 4);
        break;
    }
    }
    uintptr_t top = ((uintptr_t)base + STACK_SIZE) & ~(uintptr_t)15;
    uint64_t *sp = (uint64_t *)top;
    *--sp = 0;
    *--sp = (uint64_t)(uintptr_t)&trampoline;
    for (int k = 0; k < 6; k++) *--sp = 0;
    g_ctx_sp = sp;
    g_calls = &calls;
    sim_rctx_switch(&g_main_sp, g_ctx_sp);
    g_calls = nullptr;
}

} // namespace stackctx
} // namespace sim
