#define SIM_SEAMS_NO_MACROS
#include "sim_seams.h"
#include "alloc.h"
#include "../core/prng.h"
#include "../core/sim.h"
#include <algorithm>
#include <cstdio>
#include <cstdlib>
#include <cstring>
#include <sstream>

extern "C" {
extern const struct sim_site *const __start_sim_sites[] __attribute__((weak));
extern const struct sim_site *const __stop_sim_sites[] __attribute__((weak));
}

extern "C" {
extern volatile int sim_atomic_depth;
}
struct AtomicScope {
    int saved;
    AtomicScope() : saved(sim_atomic_depth) { sim_atomic_depth = saved + 1; }
    ~AtomicScope() { sim_atomic_depth = saved; }
};

namespace sim {
namespace alloc {

void (*on_alloc_hook)(void *, size_t) = nullptr;
void (*on_free_hook)(void *, size_t) = nullptr;

// (immortal: library destructors may call free() after this file's static destructors would have run)
static std::map<void *, Block> &g_live = *new std::map<void *, Block>();
// Blocks that were still allocated when a run ended.  They stay valid memory: a library may
// legitimately keep a block across calls (a buffer pool, a cache) and free or reuse it in a
// later run.  They are not "live" for this run's accounting, but freeing or reallocating
// them is legal.  Bounded, oldest first (what a violating run leaked ends up here too).
static std::map<void *, Block> &g_kept = *new std::map<void *, Block>();
static uint64_t g_kept_serial = 0;
static const size_t KEPT_MAX = 64;
static uint64_t g_serial = 0;
static uint64_t g_fail_at = 0;
static CallInfo &g_call = *new CallInfo();
static bool g_in_call = false;
static Fill g_fill = Fill::Garbage;
static Rng g_fill_rng(0x5eed);
static uint64_t g_pattern = 0;
static size_t g_cap = 0;

struct SiteRec {
    SiteInfo info;
};
static std::map<const struct sim_site *, size_t> &g_site_index = *new std::map<const struct sim_site *, size_t>();
static std::vector<SiteRec> &g_sites = *new std::vector<SiteRec>();
static bool g_sites_init = false;

static const char *kind_name(int k) {
    switch (k) {
    case 0: return "malloc";
    case 1: return "calloc";
    case 2: return "realloc";
    default: return "free";
    }
}

static std::string basename_of(const char *f) {
    const char *s = strrchr(f, '/');
    return s ? s + 1 : f;
}

static void init_sites() {
    if (g_sites_init) return;
    g_sites_init = true;
    if (!__start_sim_sites || !__stop_sim_sites) return;
    // group static descriptors by (file, func, line, kind); identical tuples
    // (inline functions instantiated in several TUs) collapse to one site
    struct Key {
        std::string file, func;
        int line, kind;
        bool operator<(const Key &o) const {
            if (file != o.file) return file < o.file;
            if (func != o.func) return func < o.func;
            if (line != o.line) return line < o.line;
            return kind < o.kind;
        }
    };
    std::map<Key, std::vector<const struct sim_site *>> groups;
    for (const struct sim_site *const *pp = __start_sim_sites; pp < __stop_sim_sites; pp++) {
        const struct sim_site *s = *pp;
        if (!s) continue;
        groups[Key{basename_of(s->file), s->func, s->line, s->kind}].push_back(s);
    }
    // ordinal within (file, func) counts allocating kinds in line order
    std::map<std::pair<std::string, std::string>, int> ord;
    for (auto &g : groups) { // map order: file, func, line
        const Key &k = g.first;
        SiteRec r;
        r.info.file = k.file;
        r.info.line = k.line;
        r.info.kind = k.kind;
        if (k.kind == 3) {
            r.info.name = k.func + "#free";
        } else {
            int o = ++ord[{k.file, k.func}];
            r.info.name = k.func + "#" + std::to_string(o);
        }
        size_t idx = g_sites.size();
        g_sites.push_back(r);
        for (auto *s : g.second) g_site_index[s] = idx;
    }
}

static SiteRec *site_of(const struct sim_site *s) {
    init_sites();
    auto it = g_site_index.find(s);
    if (it != g_site_index.end()) return &g_sites[it->second];
    // a site the section walk did not see (harness-owned descriptor)
    SiteRec r;
    r.info.file = basename_of(s->file);
    r.info.line = s->line;
    r.info.kind = s->kind;
    r.info.name = std::string(s->func) + "#h";
    g_site_index[s] = g_sites.size();
    g_sites.push_back(r);
    return &g_sites.back();
}

void reset_run() {
    // blocks still allocated are kept valid (see g_kept); only the accounting starts afresh
    for (auto &kv : g_live) {
        Block b = kv.second;
        b.serial = ++g_kept_serial;
        g_kept[kv.first] = b;
    }
    g_live.clear();
    while (g_kept.size() > KEPT_MAX) {
        auto oldest = g_kept.begin();
        for (auto it = g_kept.begin(); it != g_kept.end(); ++it)
            if (it->second.serial < oldest->second.serial) oldest = it;
        ::free(oldest->first);
        g_kept.erase(oldest);
    }
    g_serial = 0;
    g_fail_at = 0;
    g_in_call = false;
    g_call = CallInfo();
    g_cap = 0;
    g_fill = Fill::Garbage;
    g_fill_rng.reseed(0x5eed);
}

void begin_call(uint64_t fail_at) {
    g_call = CallInfo();
    g_fail_at = fail_at;
    g_in_call = true;
}
CallInfo end_call() {
    g_in_call = false;
    g_fail_at = 0;
    return g_call;
}
const CallInfo &current() { return g_call; }
void set_fill(Fill f, uint64_t seed, uint64_t pattern) {
    g_fill = f;
    g_fill_rng.reseed(seed);
    g_pattern = pattern;
}
void set_cap(size_t bytes) { g_cap = bytes; }
size_t live_count() { return g_live.size(); }
const std::map<void *, Block> &live() { return g_live; }
uint64_t serial() { return g_serial; }
std::vector<Block> live_since(uint64_t since) {
    std::vector<Block> v;
    for (auto &kv : g_live)
        if (kv.second.serial > since) v.push_back(kv.second);
    std::sort(v.begin(), v.end(), [](const Block &a, const Block &b) { return a.serial < b.serial; });
    return v;
}
bool is_live(const void *p) { return g_live.count((void *)p) != 0 || g_kept.count((void *)p) != 0; }
size_t size_of(const void *p) {
    auto it = g_live.find((void *)p);
    if (it != g_live.end()) return it->second.size;
    it = g_kept.find((void *)p);
    return it == g_kept.end() ? 0 : it->second.size;
}
size_t kept_count() { return g_kept.size(); }
bool is_kept(const void *p) { return g_kept.count((void *)p) != 0; }

static void fill(void *p, size_t n) {
    if (!p || n == 0) return;
    unsigned char *c = (unsigned char *)p;
    switch (g_fill) {
    case Fill::Zero: memset(p, 0, n); break;
    case Fill::Pattern: {
        for (size_t i = 0; i < n; i++) c[i] = (unsigned char)(g_pattern >> (8 * (i & 7)));
        break;
    }
    case Fill::Garbage: {
        size_t i = 0;
        for (; i + 8 <= n; i += 8) {
            uint64_t v = g_fill_rng.next();
            memcpy(c + i, &v, 8);
        }
        if (i < n) {
            uint64_t v = g_fill_rng.next();
            memcpy(c + i, &v, n - i);
        }
        break;
    }
    }
}

// decides whether this request is refused; records it
static bool refuse(SiteRec *sr, size_t n, int kind) {
    g_call.requests++;
    sr->info.reached++;
    if (g_in_call) g_call.request_sites.push_back(sr->info.name);
    if (g_fail_at && g_call.requests == g_fail_at) {
        g_call.fault_fired = true;
        g_call.fault_site = sr->info.name;
        g_call.fault_kind = kind_name(kind);
        g_call.fault_size = n;
        sr->info.failed++;
        ctx_append(" site=" + sr->info.name);
        return true;
    }
    if (g_cap && n > g_cap) {
        if (!g_call.cap_hit) {
            g_call.cap_hit = true;
            g_call.cap_size = n;
            g_call.cap_site = sr->info.name;
        }
        return true;
    }
    return false;
}

static void *track(void *p, size_t n, SiteRec *sr) {
    if (!p) return p;
    g_live[p] = Block{n, sr->info.name, ++g_serial};
    if (on_alloc_hook) on_alloc_hook(p, n);
    return p;
}

static void *do_malloc(size_t n, const struct sim_site *s) {
    SiteRec *sr = site_of(s);
    if (refuse(sr, n, 0)) return nullptr;
    void *p = ::malloc(n ? n : 1);
    if (!p) return nullptr;
    track(p, n, sr);
    fill(p, n);
    return p;
}
static void *do_calloc(size_t a, size_t b, const struct sim_site *s) {
    SiteRec *sr = site_of(s);
    size_t n;
    if (__builtin_mul_overflow(a, b, &n)) n = (size_t)-1;
    if (refuse(sr, n, 1)) return nullptr;
    if (n == (size_t)-1) return nullptr;
    void *p = ::calloc(n ? n : 1, 1);
    return track(p, n, sr);
}
static void *do_realloc(void *old, size_t n, const struct sim_site *s) {
    SiteRec *sr = site_of(s);
    size_t oldn = 0;
    bool old_kept = false;
    if (old) {
        auto it = g_live.find(old);
        if (it == g_live.end()) {
            it = g_kept.find(old);
            if (it == g_kept.end()) {
                g_call.bad_free = true;
                g_call.bad_free_site = sr->info.name;
                g_call.requests++;
                return nullptr;
            }
            old_kept = true;
        }
        oldn = it->second.size;
    }
    if (refuse(sr, n, 2)) return nullptr; // old block stays valid (C semantics)
    // never move-in-place: a fresh block makes stale-pointer use visible
    void *p = ::malloc(n ? n : 1);
    if (!p) return nullptr;
    if (old) {
        memcpy(p, old, std::min(oldn, n));
        if (on_free_hook) on_free_hook(old, oldn);
        if (old_kept)
            g_kept.erase(old);
        else
            g_live.erase(old);
        ::free(old);
    }
    track(p, n, sr);
    if (n > oldn) fill((char *)p + oldn, n - oldn);
    return p;
}
static void do_free(void *p, const struct sim_site *s) {
    if (!p) return;
    auto it = g_live.find(p);
    if (it == g_live.end()) {
        auto kt = g_kept.find(p);
        if (kt != g_kept.end()) { // a block kept from an earlier run: the library may free it now
            if (on_free_hook) on_free_hook(p, kt->second.size);
            g_kept.erase(kt);
            ::free(p);
            return;
        }
        SiteRec *sr = site_of(s);
        g_call.bad_free = true;
        g_call.bad_free_site = sr->info.name;
        return; // do not hand a wild pointer to the real allocator
    }
    if (on_free_hook) on_free_hook(p, it->second.size);
    g_live.erase(it);
    ::free(p);
}

void release(void *p) {
    AtomicScope a;
    static const struct sim_site harness_site = {"harness", "harness_release", 0, 3};
    do_free(p, &harness_site);
}

std::vector<SiteInfo> sites() {
    init_sites();
    std::vector<SiteInfo> v;
    for (auto &s : g_sites)
        if (s.info.kind != 3) v.push_back(s.info);
    return v;
}

std::string sites_json() {
    std::ostringstream o;
    o << "\"alloc_sites\":{";
    bool first = true;
    for (auto &s : sites()) {
        if (s.name.size() > 2 && s.name.compare(s.name.size() - 2, 2, "#h") == 0) continue;
        if (!first) o << ',';
        first = false;
        o << '"' << s.file << ':' << s.name << "\":[" << s.reached << ',' << s.failed << ']';
    }
    o << "}";
    return o.str();
}

} // namespace alloc
} // namespace sim

extern "C" {
void *sim_malloc_at(size_t n, const struct sim_site *s) {
    AtomicScope a;
    return sim::alloc::do_malloc(n, s);
}
void *sim_calloc_at(size_t a_, size_t b, const struct sim_site *s) {
    AtomicScope a;
    return sim::alloc::do_calloc(a_, b, s);
}
void *sim_realloc_at(void *p, size_t n, const struct sim_site *s) {
    AtomicScope a;
    return sim::alloc::do_realloc(p, n, s);
}
void sim_free_at(void *p, const struct sim_site *s) {
    AtomicScope a;
    sim::alloc::do_free(p, s);
}
}
