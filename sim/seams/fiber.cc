#include "fiber.h"
#include "../core/prng.h"
#include <algorithm>
#include <cstdio>
#include <cstdlib>
#include <cstring>
#include <pthread.h>
#include <link.h>
#include <sys/mman.h>
#include <unistd.h>

namespace sim {
namespace alloc {
extern void (*on_alloc_hook)(void *, size_t);
extern void (*on_free_hook)(void *, size_t);
} // namespace alloc

namespace fiber {

static const size_t STACK_SIZE = 256 * 1024;
static const int MAX_TASKS = 16;

// Minimal x86-64 context switch (callee-saved registers + stack pointer): no
// signal-mask system call per switch, unlike swapcontext.
extern "C" void sim_ctx_switch(void **save_sp, void *load_sp);
__asm__(".text\n"
        ".globl sim_ctx_switch\n"
        ".type sim_ctx_switch,@function\n"
        "sim_ctx_switch:\n"
        "  pushq %rbp\n  pushq %rbx\n  pushq %r12\n  pushq %r13\n  pushq %r14\n  pushq %r15\n"
        "  movq %rsp, (%rdi)\n"
        "  movq %rsi, %rsp\n"
        "  popq %r15\n  popq %r14\n  popq %r13\n  popq %r12\n  popq %rbx\n  popq %rbp\n"
        "  ret\n"
        ".size sim_ctx_switch, .-sim_ctx_switch\n");

struct Task {
    void *sp = nullptr;
    char *stack = nullptr; // mmap base (guard page first)
    bool finished = false;
    bool blocked = false;
    uintptr_t blocked_on = 0;
    int in_lib = 0;
    uint32_t vc[MAX_TASKS] = {0}; // vector clock (happens-before)
    unsigned atomic_streak = 0;    // consecutive atomic operations without a plain write (spin loop)
    int prio = 0;
    std::vector<uintptr_t> fstack;
    std::vector<unsigned char> tls; // this task's image of the executable's thread-local block
};

static Task g_tasks[MAX_TASKS];
static int g_ntasks = 0;
static int g_cur = -1;
static void *g_main_sp = nullptr;
static const std::vector<std::function<void()>> *g_bodies = nullptr;
static Config g_cfg;
static Result *g_res = nullptr;
static Rng g_rng(1);
static uint64_t g_steps = 0;
static uint64_t g_run_id = 0; // vector clocks held by synchronisation objects are per run
static uint64_t g_alone_steps = 0;
static uint64_t g_alone_budget = 0;
static std::vector<uint64_t> g_cps; // PCT change points (sorted)
static size_t g_cp_idx = 0;
static int g_low_prio = 0;
static std::vector<int> g_order; // SEQUENTIAL order
static size_t g_rp = 0;          // REPLAY cursor
static char *g_stacks[MAX_TASKS];

static bool g_fp_on = false;
static std::vector<Access> g_fp;

int current_task() { return g_cur; }
uint64_t alone_steps() { return g_alone_steps; }
void alone_steps_reset() { g_alone_steps = 0; }
void alone_budget(uint64_t b) {
    g_alone_steps = 0;
    g_alone_budget = b;
}
void lib_enter() {
    if (g_cur >= 0) g_tasks[g_cur].in_lib++;
}
void lib_exit() {
    if (g_cur >= 0 && g_tasks[g_cur].in_lib > 0) g_tasks[g_cur].in_lib--;
}
void footprint_begin() {
    g_fp.clear();
    g_fp_on = true;
}
std::vector<Access> footprint_end() {
    g_fp_on = false;
    return g_fp;
}

// ------------------------------------------------- thread-local storage per task
// Fibers share one OS thread, hence one thread-local block.  A library that keeps
// scratch state in `_Thread_local` objects is correct under real threads; to stay
// correct here every task gets its own image of the executable's TLS block, swapped
// in and out at each context switch, and accesses to it are task-private.
static unsigned char *g_tls_base = nullptr; // start of the executable's TLS block of this thread
static size_t g_tls_size = 0;
static std::vector<unsigned char> g_tls_init; // pristine image (as at the start of run())
static std::vector<unsigned char> g_tls_main; // the harness's own image while tasks run

static int tls_phdr_cb(struct dl_phdr_info *info, size_t, void *) {
    if (info->dlpi_name && info->dlpi_name[0]) return 0; // main executable only
    for (int i = 0; i < info->dlpi_phnum; i++)
        if (info->dlpi_phdr[i].p_type == PT_TLS && info->dlpi_tls_data) {
            g_tls_base = (unsigned char *)info->dlpi_tls_data;
            g_tls_size = info->dlpi_phdr[i].p_memsz;
        }
    return 1;
}
static void tls_discover() {
    static bool done = false;
    if (done) return;
    done = true;
    dl_iterate_phdr(tls_phdr_cb, nullptr);
}
static inline bool in_tls(uintptr_t a) {
    return g_tls_size && a >= (uintptr_t)g_tls_base && a < (uintptr_t)g_tls_base + g_tls_size;
}
static void tls_save(std::vector<unsigned char> &img) {
    if (g_tls_size) img.assign(g_tls_base, g_tls_base + g_tls_size);
}
static void tls_load(const std::vector<unsigned char> &img) {
    if (g_tls_size && img.size() == g_tls_size) memcpy(g_tls_base, img.data(), g_tls_size);
}

// ---------------------------------------------------------------- shadow map
// Per byte: the last write (task, its clock then, pc) and up to two reads that are not
// ordered with each other.  Two accesses conflict when they come from different tasks,
// at least one writes, and neither happens-before the other (vector clocks advanced at
// every release: unlock, once completion, atomic store/RMW; joined at every acquire).
struct Cell {
    uintptr_t key;   // granule address (addr >> 3), 0 = empty
    uint32_t epoch;
    int8_t wtask[8];
    int8_t rtask[8][2];
    uint32_t wclk[8];
    uint32_t rclk[8][2];
    uint32_t wpc[8];
    uint32_t rpc[8][2];
};
static const size_t SHADOW_BITS = 18;
static const size_t SHADOW_SIZE = 1u << SHADOW_BITS;
static Cell *g_shadow = nullptr;
static uint32_t g_epoch = 1;
static size_t g_shadow_used = 0;

static Cell *cell_for(uintptr_t gran, bool create) {
    size_t h = (size_t)((gran * 0x9e3779b97f4a7c15ULL) >> (64 - SHADOW_BITS));
    for (size_t i = 0; i < SHADOW_SIZE; i++) {
        Cell &c = g_shadow[(h + i) & (SHADOW_SIZE - 1)];
        if (c.epoch != g_epoch) {
            if (!create) return nullptr;
            if (g_shadow_used > SHADOW_SIZE / 2) return nullptr;
            g_shadow_used++;
            c.key = gran;
            c.epoch = g_epoch;
            memset(c.wtask, -1, sizeof c.wtask);
            memset(c.rtask, -1, sizeof c.rtask);
            return &c;
        }
        if (c.key == gran) return &c;
    }
    return nullptr;
}

static void note_conflict(uintptr_t addr, int a, bool aw, uint32_t pca, int b, bool bw, uintptr_t pcb) {
    g_res->conflict_count++;
    if (g_res->conflicts.size() < 4) {
        Conflict c;
        c.addr = addr;
        c.task_a = a;
        c.task_b = b;
        c.a_write = aw;
        c.b_write = bw;
        c.pc_a = pca;
        c.pc_b = pcb;
        g_res->conflicts.push_back(c);
    }
}

static inline bool on_own_stack(uintptr_t a) {
    char *s = g_tasks[g_cur].stack;
    return a >= (uintptr_t)s && a < (uintptr_t)s + STACK_SIZE + 4096;
}

static void trace(uintptr_t addr, size_t size, bool write, uintptr_t pc) {
    if (g_cur < 0) {
        if (g_fp_on) g_fp.push_back(Access{addr, (uint32_t)size, write});
        return;
    }
    if (!g_cfg.trace || !g_res) return;
    if (on_own_stack(addr)) return;
    if (in_tls(addr)) return; // each task has its own image of the thread-local block
    int t = g_cur;
    const uint32_t *vc = g_tasks[t].vc;
    if (write) g_tasks[t].atomic_streak = 0;
    for (size_t i = 0; i < size; i++) {
        uintptr_t a = addr + i;
        Cell *c = cell_for(a >> 3, true);
        if (!c) {
            g_res->trace_overflow = true;
            return;
        }
        unsigned b = (unsigned)(a & 7);
        int wt = c->wtask[b];
        bool w_unordered = wt >= 0 && wt != t && c->wclk[b] > vc[wt];
        if (write) {
            if (w_unordered)
                note_conflict(a, wt, true, c->wpc[b], t, true, pc);
            else
                for (int k = 0; k < 2; k++) {
                    int rt = c->rtask[b][k];
                    if (rt >= 0 && rt != t && c->rclk[b][k] > vc[rt]) {
                        note_conflict(a, rt, false, c->rpc[b][k], t, true, pc);
                        break;
                    }
                }
            c->wtask[b] = (int8_t)t;
            c->wclk[b] = vc[t];
            c->wpc[b] = (uint32_t)pc;
            c->rtask[b][0] = c->rtask[b][1] = -1; // reads before this write are subsumed by it
        } else {
            if (w_unordered) note_conflict(a, wt, true, c->wpc[b], t, false, pc);
            // keep this read: own slot, else a free slot, else a slot whose read
            // happens-before this one (subsumed), else the older slot
            int slot = -1;
            for (int k = 0; k < 2 && slot < 0; k++)
                if (c->rtask[b][k] == t) slot = k;
            for (int k = 0; k < 2 && slot < 0; k++)
                if (c->rtask[b][k] < 0) slot = k;
            for (int k = 0; k < 2 && slot < 0; k++)
                if (c->rclk[b][k] <= vc[c->rtask[b][k]]) slot = k;
            if (slot < 0) {
                c->rtask[b][0] = c->rtask[b][1];
                c->rclk[b][0] = c->rclk[b][1];
                c->rpc[b][0] = c->rpc[b][1];
                slot = 1;
            }
            c->rtask[b][slot] = (int8_t)t;
            c->rclk[b][slot] = vc[t];
            c->rpc[b][slot] = (uint32_t)pc;
        }
    }
}

static void shadow_clear_range(void *p, size_t n) {
    if (!g_shadow || !g_res) return;
    uintptr_t a = (uintptr_t)p, e = a + n;
    for (uintptr_t g = a >> 3; g <= (e ? (e - 1) >> 3 : 0) && n; g++) {
        Cell *c = cell_for(g, false);
        if (!c) continue;
        for (unsigned b = 0; b < 8; b++) {
            uintptr_t x = (g << 3) + b;
            if (x >= a && x < e) {
                c->wtask[b] = -1;
                c->rtask[b][0] = c->rtask[b][1] = -1;
            }
        }
    }
}

// ----------------------------------------------------------------- scheduler
static std::vector<int> runnable() {
    std::vector<int> v;
    for (int i = 0; i < g_ntasks; i++)
        if (!g_tasks[i].finished && !g_tasks[i].blocked) v.push_back(i);
    return v;
}

static void record_switch(int from, int to, bool at_end) {
    g_res->switches.push_back(g_steps);
    g_res->switches.push_back((uint64_t)to | (at_end ? 0x100 : 0));
    if (!at_end && from >= 0) {
        g_res->preemptions++;
        if (g_tasks[from].in_lib) g_res->preempt_in_call++;
    }
    uintptr_t fa = (from >= 0 && !g_tasks[from].fstack.empty()) ? g_tasks[from].fstack.back() : 0;
    uintptr_t fb = !g_tasks[to].fstack.empty() ? g_tasks[to].fstack.back() : 0;
    if (fa && fb) {
        uint64_t h = (uint64_t)std::min(fa, fb) * 0x9e3779b97f4a7c15ULL ^ (uint64_t)std::max(fa, fb);
        g_res->site_pairs.push_back(h);
        if (fa == fb && !at_end) {
            g_res->overlap_same_function++;
            if (g_res->overlap_functions.size() < 8) g_res->overlap_functions.push_back(fa);
        }
    }
}

static void switch_to(int next, bool at_end) {
    int from = g_cur;
    record_switch(from, next, at_end);
    g_cur = next;
    if (from >= 0) tls_save(g_tasks[from].tls); else tls_save(g_tls_main);
    tls_load(g_tasks[next].tls);
    if (from >= 0)
        sim_ctx_switch(&g_tasks[from].sp, g_tasks[next].sp);
    else
        sim_ctx_switch(&g_main_sp, g_tasks[next].sp);
}

static int highest_prio(const std::vector<int> &r) {
    int best = -1;
    for (int t : r)
        if (best < 0 || g_tasks[t].prio > g_tasks[best].prio) best = t;
    return best;
}

static int resolve(uint64_t want, const std::vector<int> &r) {
    int w = (int)(want & 0xff);
    for (int t : r)
        if (t == w) return t;
    return r[(size_t)w % r.size()];
}

// called at every yield point of library code
static inline void yield_point() {
    if (g_cur < 0) {
        g_alone_steps++;
        if (g_alone_budget && g_alone_steps > g_alone_budget) _exit(78); // runaway loop outside run()
        return;
    }
    g_steps++;
    if (g_cfg.step_budget && g_steps > g_cfg.step_budget) _exit(78);
    int next = -1;
    switch (g_cfg.strategy) {
    case RANDOM:
        if (g_rng.below(g_cfg.preempt_den) == 0) {
            std::vector<int> r = runnable();
            if (r.size() > 1) {
                do next = r[g_rng.below(r.size())];
                while (next == g_cur);
            }
        }
        break;
    case PCT:
        if (g_cp_idx < g_cps.size() && g_steps >= g_cps[g_cp_idx]) {
            g_cp_idx++;
            g_tasks[g_cur].prio = g_low_prio--;
            next = highest_prio(runnable());
        }
        break;
    case REPLAY:
        while (g_rp + 1 < g_cfg.replay.size() && g_cfg.replay[g_rp] <= g_steps &&
               !(g_cfg.replay[g_rp + 1] & 0x100)) {
            std::vector<int> r = runnable();
            if (!r.empty()) next = resolve(g_cfg.replay[g_rp + 1], r);
            g_rp += 2;
        }
        break;
    default: break;
    }
    if (next >= 0 && next != g_cur) switch_to(next, false);
}

// picks the task to run when the current one finished or blocked; -1 = none
static int pick_next() {
    std::vector<int> r = runnable();
    if (r.empty()) return -1;
    switch (g_cfg.strategy) {
    case RANDOM: return r[g_rng.below(r.size())];
    case PCT: return highest_prio(r);
    case SEQUENTIAL:
        for (int t : g_order)
            if (!g_tasks[t].finished && !g_tasks[t].blocked) return t;
        return r[0];
    case REPLAY:
        // skip stale preemption entries, consume one end-of-task entry
        while (g_rp + 1 < g_cfg.replay.size() && !(g_cfg.replay[g_rp + 1] & 0x100) &&
               g_cfg.replay[g_rp] <= g_steps)
            g_rp += 2;
        if (g_rp + 1 < g_cfg.replay.size() && (g_cfg.replay[g_rp + 1] & 0x100)) {
            int t = resolve(g_cfg.replay[g_rp + 1], r);
            g_rp += 2;
            return t;
        }
        return r[0];
    }
    return r[0];
}

static void task_done_or_blocked() {
    int next = pick_next();
    if (next < 0) {
        bool any_blocked = false;
        for (int i = 0; i < g_ntasks; i++)
            if (!g_tasks[i].finished && g_tasks[i].blocked) any_blocked = true;
        if (any_blocked) g_res->deadlock = true;
        int from = g_cur;
        g_cur = -1;
        tls_save(g_tasks[from].tls);
        tls_load(g_tls_main);
        sim_ctx_switch(&g_tasks[from].sp, g_main_sp);
        return;
    }
    switch_to(next, true);
}

extern "C" volatile int sim_atomic_depth;
static void trampoline() {
    int me = g_cur;
    sim_atomic_depth = 0; // a fresh task starts outside simulator code
    (*g_bodies)[(size_t)me]();
    sim_atomic_depth = 1;
    g_tasks[me].finished = true;
    g_tasks[me].in_lib = 0;
    // wake tasks blocked on locks this task may have left behind (defensive)
    task_done_or_blocked();
    // never reached for a finished task
    _exit(79);
}

Result run(const std::vector<std::function<void()>> &tasks, const Config &cfg) {
    Result res;
    g_res = &res;
    g_cfg = cfg;
    g_bodies = &tasks;
    g_ntasks = (int)std::min<size_t>(tasks.size(), MAX_TASKS);
    g_steps = 0;
    g_run_id++;
    g_rng.reseed(cfg.seed ^ 0xf1be5);
    g_rp = 0;
    if (!g_shadow) g_shadow = (Cell *)calloc(SHADOW_SIZE, sizeof(Cell));
    if (++g_epoch == 0) {
        memset(g_shadow, 0, SHADOW_SIZE * sizeof(Cell));
        g_epoch = 1;
    }
    g_shadow_used = 0;
    alloc::on_alloc_hook = shadow_clear_range;
    alloc::on_free_hook = shadow_clear_range;
    tls_discover();
    tls_save(g_tls_init); // every task starts from the thread-local state the harness thread has now
    for (int i = 0; i < g_ntasks; i++) {
        Task &t = g_tasks[i];
        t.tls = g_tls_init;
        if (!g_stacks[i]) {
            g_stacks[i] = (char *)mmap(nullptr, STACK_SIZE + 4096, PROT_READ | PROT_WRITE,
                                       MAP_PRIVATE | MAP_ANONYMOUS | MAP_STACK, -1, 0);
            mprotect(g_stacks[i], 4096, PROT_NONE);
        }
        t.stack = g_stacks[i];
        // simulator-defined residue: the hot top of the stack is cleared directly, the
        // rarely touched remainder is handed back to the kernel (reads as zero again)
        {
            const size_t HOT = 32 * 1024;
            memset(t.stack + 4096 + STACK_SIZE - HOT, 0, HOT);
            madvise(t.stack + 4096, STACK_SIZE - HOT, MADV_DONTNEED);
        }
        t.finished = t.blocked = false;
        t.in_lib = 0;
        memset(t.vc, 0, sizeof t.vc);
        t.vc[i] = 1;
        t.atomic_streak = 0;
        t.fstack.clear();
        {
            uintptr_t top = ((uintptr_t)t.stack + 4096 + STACK_SIZE) & ~(uintptr_t)15;
            uint64_t *sp = (uint64_t *)top;
            *--sp = 0;                       // fake return address of trampoline (never returns)
            *--sp = (uint64_t)(uintptr_t)&trampoline;
            for (int k = 0; k < 6; k++) *--sp = 0; // rbp rbx r12 r13 r14 r15
            t.sp = sp;
        }
    }
    // strategy set-up
    g_order.clear();
    for (int i = 0; i < g_ntasks; i++) g_order.push_back(i);
    for (int i = g_ntasks - 1; i > 0; i--) std::swap(g_order[(size_t)i], g_order[g_rng.below((uint64_t)i + 1)]);
    g_cps.clear();
    g_cp_idx = 0;
    g_low_prio = -1;
    if (cfg.strategy == PCT) {
        for (int i = 0; i < g_ntasks; i++) g_tasks[g_order[(size_t)i]].prio = cfg.pct_d + 1 + i;
        for (int i = 0; i < cfg.pct_d; i++) g_cps.push_back(1 + g_rng.below(std::max<uint64_t>(cfg.est_steps, 1)));
        std::sort(g_cps.begin(), g_cps.end());
    }
    int first;
    g_cur = -1;
    if (g_ntasks == 0) {
        g_res = nullptr;
        return res;
    }
    {
        std::vector<int> r = runnable();
        switch (cfg.strategy) {
        case RANDOM: first = r[g_rng.below(r.size())]; break;
        case PCT: first = highest_prio(r); break;
        case SEQUENTIAL: first = g_order[0]; break;
        default:
            first = r[0];
            if (g_cfg.replay.size() >= 2) {
                first = resolve(g_cfg.replay[1], r);
                g_rp = 2;
            }
            break;
        }
    }
    sim_atomic_depth = 1;
    switch_to(first, true);
    // back in the main context: all tasks finished (or deadlock)
    g_cur = -1;
    sim_atomic_depth = 0;
    res.steps = g_steps;
    res.sched_hash = fnv1a(res.switches.data(), res.switches.size() * 8);
    alloc::on_alloc_hook = nullptr;
    alloc::on_free_hook = nullptr;
    g_res = nullptr;
    return res;
}

void forget(const void *p, size_t n) { shadow_clear_range((void *)p, n); }

std::string symbolize(uintptr_t pc) {
    if (!pc) return "?";
    char cmd[256];
    snprintf(cmd, sizeof cmd, "llvm-symbolizer --obj=/proc/%d/exe -f -s 0x%lx 2>/dev/null", (int)getpid(),
             (unsigned long)pc);
    FILE *f = popen(cmd, "r");
    if (!f) return "?";
    char line[512] = {0};
    if (!fgets(line, sizeof line, f)) line[0] = 0;
    pclose(f);
    size_t n = strlen(line);
    while (n && (line[n - 1] == '\n' || line[n - 1] == '\r')) line[--n] = 0;
    return n ? std::string(line) : std::string("?");
}

// ------------------------------------------- simulated synchronisation objects
// One record per address: mutexes, spin locks, rwlocks, once controls and atomic
// objects.  Each carries the vector clock released into it.
struct SyncObj {
    int owner = -1;   // exclusive holder
    int readers = 0;  // rwlock read holders
    int state = 0;    // once: 0 not started, 1 running, 2 done
    uint64_t run = 0;
    uint32_t vc[MAX_TASKS] = {0};
};
static std::map<uintptr_t, SyncObj> g_sync;

static SyncObj &sync_for(const volatile void *m) {
    SyncObj &o = g_sync[(uintptr_t)m];
    if (o.run != g_run_id) {
        o.run = g_run_id;
        memset(o.vc, 0, sizeof o.vc);
    }
    return o;
}
static void hb_acquire(SyncObj &o) {
    if (g_cur < 0) return;
    uint32_t *vc = g_tasks[g_cur].vc;
    for (int i = 0; i < MAX_TASKS; i++)
        if (o.vc[i] > vc[i]) vc[i] = o.vc[i];
}
static void hb_release(SyncObj &o) {
    if (g_cur < 0) return;
    uint32_t *vc = g_tasks[g_cur].vc;
    for (int i = 0; i < MAX_TASKS; i++)
        if (vc[i] > o.vc[i]) o.vc[i] = vc[i];
    vc[g_cur]++;
}
static void block_on(const volatile void *m) {
    g_tasks[g_cur].blocked = true;
    g_tasks[g_cur].blocked_on = (uintptr_t)m;
    task_done_or_blocked();
}
static void wake_all(const volatile void *m) {
    for (int i = 0; i < g_ntasks; i++)
        if (g_tasks[i].blocked && g_tasks[i].blocked_on == (uintptr_t)m) g_tasks[i].blocked = false;
}
// A task that only performs atomic operations is spinning (a hand-written lock, a
// compare-and-swap retry loop): whoever it waits for must get to run, whatever the
// strategy's priorities say.
static void spin_relief() {
    Task &t = g_tasks[g_cur];
    if (++t.atomic_streak < 256 || g_cfg.strategy == REPLAY) return;
    t.atomic_streak = 0;
    std::vector<int> r = runnable();
    if (r.size() < 2) return;
    if (g_cfg.strategy == PCT) t.prio = g_low_prio--;
    int next;
    do next = r[g_rng.below(r.size())];
    while (next == g_cur);
    switch_to(next, false);
}

} // namespace fiber
} // namespace sim

using namespace sim::fiber;

extern "C" {
extern volatile int sim_atomic_depth;
#define HOOK_BEGIN                                                                                 \
    if (sim_atomic_depth) return;                                                                  \
    sim_atomic_depth = 1;
#define HOOK_END sim_atomic_depth = 0;

// ---- TSan instrumentation entry points (libtsan is NOT linked) -------------
void __tsan_init(void) {}
void __tsan_func_entry(void *) {
    HOOK_BEGIN
    if (g_cur >= 0) g_tasks[g_cur].fstack.push_back((uintptr_t)__builtin_return_address(0));
    HOOK_END
}
void __tsan_func_exit(void) {
    HOOK_BEGIN
    if (g_cur >= 0 && !g_tasks[g_cur].fstack.empty()) g_tasks[g_cur].fstack.pop_back();
    HOOK_END
}
#define SIM_RW(n)                                                                                  \
    void __tsan_read##n(void *a) {                                                                 \
        HOOK_BEGIN                                                                                 \
        yield_point();                                                                             \
        trace((uintptr_t)a, n, false, (uintptr_t)__builtin_return_address(0));                     \
        HOOK_END                                                                                   \
    }                                                                                              \
    void __tsan_write##n(void *a) {                                                                \
        HOOK_BEGIN                                                                                 \
        yield_point();                                                                             \
        trace((uintptr_t)a, n, true, (uintptr_t)__builtin_return_address(0));                      \
        HOOK_END                                                                                   \
    }                                                                                              \
    void __tsan_unaligned_read##n(void *a) {                                                       \
        HOOK_BEGIN                                                                                 \
        yield_point();                                                                             \
        trace((uintptr_t)a, n, false, (uintptr_t)__builtin_return_address(0));                     \
        HOOK_END                                                                                   \
    }                                                                                              \
    void __tsan_unaligned_write##n(void *a) {                                                      \
        HOOK_BEGIN                                                                                 \
        yield_point();                                                                             \
        trace((uintptr_t)a, n, true, (uintptr_t)__builtin_return_address(0));                      \
        HOOK_END                                                                                   \
    }                                                                                              \
    void __tsan_read##n##_pc(void *a, void *pc) {                                                  \
        HOOK_BEGIN                                                                                 \
        yield_point();                                                                             \
        trace((uintptr_t)a, n, false, (uintptr_t)pc);                                              \
        HOOK_END                                                                                   \
    }                                                                                              \
    void __tsan_write##n##_pc(void *a, void *pc) {                                                 \
        HOOK_BEGIN                                                                                 \
        yield_point();                                                                             \
        trace((uintptr_t)a, n, true, (uintptr_t)pc);                                               \
        HOOK_END                                                                                   \
    }
SIM_RW(1)
SIM_RW(2)
SIM_RW(4)
SIM_RW(8)
SIM_RW(16)
void __tsan_read_range(void *a, unsigned long n) {
    HOOK_BEGIN
    yield_point();
    trace((uintptr_t)a, n, false, (uintptr_t)__builtin_return_address(0));
    HOOK_END
}
void __tsan_write_range(void *a, unsigned long n) {
    HOOK_BEGIN
    yield_point();
    trace((uintptr_t)a, n, true, (uintptr_t)__builtin_return_address(0));
    HOOK_END
}
void __tsan_vptr_update(void **, void *) {}
void __tsan_vptr_read(void **) {}

static inline void guarded_yield() {
    if (sim_atomic_depth) return;
    sim_atomic_depth = 1;
    yield_point();
    sim_atomic_depth = 0;
}
// An atomic operation of a task: a yield point, then the happens-before edges (every
// atomic load acquires what atomic stores to the same object released; weaker memory
// orders are treated alike, which can only add edges, never a false conflict).
static inline void atomic_point(const volatile void *a, bool acq, bool rel) {
    if (sim_atomic_depth) return;
    sim_atomic_depth = 1;
    yield_point();
    if (g_cur >= 0) {
        spin_relief();
        SyncObj &o = sync_for(a);
        if (acq) hb_acquire(o);
        if (rel) hb_release(o);
    }
    sim_atomic_depth = 0;
}
// atomics: performed for real, a yield point, never a plain-access conflict
#define SIM_ATOMIC(bits, T)                                                                        \
    T __tsan_atomic##bits##_load(const volatile T *a, int) {                                       \
        atomic_point((const volatile void *)a, true, false);                                                                             \
        return __atomic_load_n(a, __ATOMIC_SEQ_CST);                                               \
    }                                                                                              \
    void __tsan_atomic##bits##_store(volatile T *a, T v, int) {                                    \
        atomic_point((const volatile void *)a, false, true);                                                                             \
        __atomic_store_n(a, v, __ATOMIC_SEQ_CST);                                                  \
    }                                                                                              \
    T __tsan_atomic##bits##_exchange(volatile T *a, T v, int) {                                    \
        atomic_point((const volatile void *)a, true, true);                                                                             \
        return __atomic_exchange_n(a, v, __ATOMIC_SEQ_CST);                                        \
    }                                                                                              \
    T __tsan_atomic##bits##_fetch_add(volatile T *a, T v, int) {                                   \
        atomic_point((const volatile void *)a, true, true);                                                                             \
        return __atomic_fetch_add(a, v, __ATOMIC_SEQ_CST);                                         \
    }                                                                                              \
    T __tsan_atomic##bits##_fetch_sub(volatile T *a, T v, int) {                                   \
        atomic_point((const volatile void *)a, true, true);                                                                             \
        return __atomic_fetch_sub(a, v, __ATOMIC_SEQ_CST);                                         \
    }                                                                                              \
    T __tsan_atomic##bits##_fetch_and(volatile T *a, T v, int) {                                   \
        atomic_point((const volatile void *)a, true, true);                                                                             \
        return __atomic_fetch_and(a, v, __ATOMIC_SEQ_CST);                                         \
    }                                                                                              \
    T __tsan_atomic##bits##_fetch_or(volatile T *a, T v, int) {                                    \
        atomic_point((const volatile void *)a, true, true);                                                                             \
        return __atomic_fetch_or(a, v, __ATOMIC_SEQ_CST);                                          \
    }                                                                                              \
    T __tsan_atomic##bits##_fetch_xor(volatile T *a, T v, int) {                                   \
        atomic_point((const volatile void *)a, true, true);                                                                             \
        return __atomic_fetch_xor(a, v, __ATOMIC_SEQ_CST);                                         \
    }                                                                                              \
    int __tsan_atomic##bits##_compare_exchange_strong(volatile T *a, T *c, T v, int, int) {        \
        atomic_point((const volatile void *)a, true, true);                                                                             \
        return __atomic_compare_exchange_n(a, c, v, 0, __ATOMIC_SEQ_CST, __ATOMIC_SEQ_CST);        \
    }                                                                                              \
    int __tsan_atomic##bits##_compare_exchange_weak(volatile T *a, T *c, T v, int, int) {          \
        atomic_point((const volatile void *)a, true, true);                                                                             \
        return __atomic_compare_exchange_n(a, c, v, 0, __ATOMIC_SEQ_CST, __ATOMIC_SEQ_CST);        \
    }                                                                                              \
    T __tsan_atomic##bits##_compare_exchange_val(volatile T *a, T c, T v, int, int) {              \
        atomic_point((const volatile void *)a, true, true);                                                                             \
        __atomic_compare_exchange_n(a, &c, v, 0, __ATOMIC_SEQ_CST, __ATOMIC_SEQ_CST);              \
        return c;                                                                                  \
    }
SIM_ATOMIC(8, unsigned char)
SIM_ATOMIC(16, unsigned short)
SIM_ATOMIC(32, unsigned int)
SIM_ATOMIC(64, unsigned long)
void __tsan_atomic_thread_fence(int) { guarded_yield(); }
void __tsan_atomic_signal_fence(int) {}

// ---- sanitizer coverage: every basic block is a yield point too ------------
void __sanitizer_cov_trace_pc_guard_init(uint32_t *start, uint32_t *stop) {
    static uint32_t n;
    if (start == stop || *start) return;
    for (uint32_t *x = start; x < stop; x++) *x = ++n;
}
void __sanitizer_cov_trace_pc_guard(uint32_t *) { guarded_yield(); }

// ---- mem*/qsort called by library code (written or compiler-generated) -----
void *__real_memcpy(void *, const void *, size_t);
void *__real_memmove(void *, const void *, size_t);
void *__real_memset(void *, int, size_t);
int __real_memcmp(const void *, const void *, size_t);
void __real_qsort(void *, size_t, size_t, int (*)(const void *, const void *));

static inline bool tracing_here() {
    if (sim_atomic_depth) return false; // simulator / allocator code, not library code
    return (g_cur >= 0 && g_tasks[g_cur].in_lib > 0) || (g_cur < 0 && g_fp_on);
}
void *__wrap_memcpy(void *d, const void *s, size_t n) {
    if (tracing_here()) {
        sim_atomic_depth = 1;
        yield_point();
        trace((uintptr_t)s, n, false, (uintptr_t)__builtin_return_address(0));
        trace((uintptr_t)d, n, true, (uintptr_t)__builtin_return_address(0));
        sim_atomic_depth = 0;
    }
    return __real_memcpy(d, s, n);
}
void *__wrap_memmove(void *d, const void *s, size_t n) {
    if (tracing_here()) {
        sim_atomic_depth = 1;
        yield_point();
        trace((uintptr_t)s, n, false, (uintptr_t)__builtin_return_address(0));
        trace((uintptr_t)d, n, true, (uintptr_t)__builtin_return_address(0));
        sim_atomic_depth = 0;
    }
    return __real_memmove(d, s, n);
}
void *__wrap_memset(void *d, int c, size_t n) {
    if (tracing_here()) {
        sim_atomic_depth = 1;
        yield_point();
        trace((uintptr_t)d, n, true, (uintptr_t)__builtin_return_address(0));
        sim_atomic_depth = 0;
    }
    return __real_memset(d, c, n);
}
int __wrap_memcmp(const void *a, const void *b, size_t n) {
    if (tracing_here()) {
        sim_atomic_depth = 1;
        yield_point();
        trace((uintptr_t)a, n, false, (uintptr_t)__builtin_return_address(0));
        trace((uintptr_t)b, n, false, (uintptr_t)__builtin_return_address(0));
        sim_atomic_depth = 0;
    }
    return __real_memcmp(a, b, n);
}
void __wrap_qsort(void *base, size_t n, size_t sz, int (*cmp)(const void *, const void *)) {
    if (tracing_here()) {
        sim_atomic_depth = 1;
        yield_point();
        trace((uintptr_t)base, n * sz, true, (uintptr_t)__builtin_return_address(0));
        sim_atomic_depth = 0;
    }
    __real_qsort(base, n, sz, cmp);
}

// ---- simulated locks and once controls: park/wake, happens-before edges ----
// The wrappers are simulator code: they run with sim_atomic_depth set, so that their
// own bookkeeping (std::map) is neither traced as a task access nor a yield point; the
// yield points they contain are explicit.  Outside run() there is one flow of control:
// nothing can block, and the objects' own words are never touched (the real functions
// are not called at all, so a control word set by the solo pass cannot disagree with
// the simulated state).
static int sim_lock(const volatile void *m, bool try_only, bool shared) {
    if (sim_atomic_depth) return 0;
    sim_atomic_depth = 1;
    if (g_cur >= 0) yield_point();
    SyncObj *o = &sync_for(m);
    int rc = 0;
    for (;;) {
        bool busy = shared ? (o->owner >= 0 && o->owner != g_cur) : ((o->owner >= 0 && o->owner != g_cur) || o->readers > 0);
        if (!busy) break;
        if (try_only || g_cur < 0) {
            rc = 16; // EBUSY
            break;
        }
        block_on(m);
        sim_atomic_depth = 1;
        o = &sync_for(m);
        if (g_res && g_res->deadlock) break;
    }
    if (rc == 0) {
        if (shared)
            o->readers++;
        else
            o->owner = g_cur >= 0 ? g_cur : 99;
        hb_acquire(*o);
    }
    sim_atomic_depth = 0;
    return rc;
}
static int sim_unlock(const volatile void *m) {
    if (sim_atomic_depth) return 0;
    sim_atomic_depth = 1;
    SyncObj &o = sync_for(m);
    if (o.owner >= 0)
        o.owner = -1;
    else if (o.readers > 0)
        o.readers--;
    hb_release(o);
    wake_all(m);
    if (g_cur >= 0) yield_point();
    sim_atomic_depth = 0;
    return 0;
}
static void sim_once(const volatile void *ctl, void (*fn)(void)) {
    if (sim_atomic_depth) {
        // called from simulator code: never the library's controls
        fn();
        return;
    }
    sim_atomic_depth = 1;
    if (g_cur >= 0) yield_point();
    SyncObj *o = &g_sync[(uintptr_t)ctl]; // state outlives runs; the clock does not
    while (o->state == 1 && g_cur >= 0 && o->owner != g_cur) {
        block_on(ctl);
        sim_atomic_depth = 1;
        o = &g_sync[(uintptr_t)ctl];
        if (g_res && g_res->deadlock) break;
    }
    if (o->state == 0) {
        o->state = 1;
        o->owner = g_cur >= 0 ? g_cur : 99;
        sim_atomic_depth = 0;
        fn(); // library code: traced, preemptible
        sim_atomic_depth = 1;
        o = &g_sync[(uintptr_t)ctl];
        o->state = 2;
        o->owner = -1;
        hb_release(sync_for(ctl));
        wake_all(ctl);
    } else if (o->state == 2) {
        hb_acquire(sync_for(ctl));
    }
    sim_atomic_depth = 0;
}

int __wrap_pthread_mutex_lock(pthread_mutex_t *m) { return sim_lock(m, false, false); }
int __wrap_pthread_mutex_trylock(pthread_mutex_t *m) { return sim_lock(m, true, false); }
int __wrap_pthread_mutex_unlock(pthread_mutex_t *m) { return sim_unlock(m); }
int __wrap_pthread_spin_lock(pthread_spinlock_t *m) { return sim_lock(m, false, false); }
int __wrap_pthread_spin_trylock(pthread_spinlock_t *m) { return sim_lock(m, true, false); }
int __wrap_pthread_spin_unlock(pthread_spinlock_t *m) { return sim_unlock(m); }
int __wrap_pthread_rwlock_rdlock(pthread_rwlock_t *m) { return sim_lock(m, false, true); }
int __wrap_pthread_rwlock_tryrdlock(pthread_rwlock_t *m) { return sim_lock(m, true, true); }
int __wrap_pthread_rwlock_wrlock(pthread_rwlock_t *m) { return sim_lock(m, false, false); }
int __wrap_pthread_rwlock_trywrlock(pthread_rwlock_t *m) { return sim_lock(m, true, false); }
int __wrap_pthread_rwlock_unlock(pthread_rwlock_t *m) { return sim_unlock(m); }
int __wrap_pthread_once(pthread_once_t *c, void (*fn)(void)) {
    sim_once(c, fn);
    return 0;
}
// C11 <threads.h>: thrd_success = 0, thrd_busy = 1
int __wrap_mtx_lock(void *m) { return sim_lock(m, false, false); }
int __wrap_mtx_trylock(void *m) { return sim_lock(m, true, false) ? 1 : 0; }
int __wrap_mtx_unlock(void *m) { return sim_unlock(m); }
void __wrap_call_once(void *c, void (*fn)(void)) { sim_once(c, fn); }
}
