#include "sim.h"
int main(int argc, char **argv) { return sim::sim_main(argc, argv); }
