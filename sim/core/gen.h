// Shared workload generator: the array family of DESIGN section 3.
#pragma once
#include "prng.h"
#include "sim.h"
#include <algorithm>
#include <vector>

namespace sim {

enum ArrClass {
    ARR_CONSTANT = 0,
    ARR_LOWCARD,
    ARR_STRICT_INC16,   // strictly increasing, < 65536 (bitmap domain)
    ARR_SORTED,         // non-decreasing, any magnitude
    ARR_DESCENDING,
    ARR_CLUSTERED,      // cluster + a few outliers (PFOR's case)
    ARR_BOUNDARY,       // byte-width boundary values
    ARR_FULL64,
    ARR_SMALL,          // 1..1000 (Elias domain: >= 1)
    ARR_ZERORUNS,       // long runs of zeros (ones for codecs that need >= 1) between small values
    ARR_WIDTH_EDGE,     // base + {0, 1, 2^(8w)-2, 2^(8w)-1, 2^(8w)}: ranges that exactly fill w bytes
    ARR_POOL,           // drawn from a pool whose size sits near a decision threshold
    ARR_LONGRUNS,       // one to six runs of equal values filling the whole array (bulk fill / copy paths)
    ARR_BIGSTEP,        // non-decreasing small steps with one to three giant steps (2^31, 2^32, 2^63, ...)
    ARR_PERIODIC,       // records of P slots: one slot constant, the others noisy (strided samples alias)
    ARR_NCLASSES
};

inline size_t gen_length(Rng &r, Tier tier, size_t cap = 300) {
    static const size_t hot[] = {1, 2, 3, 15, 16, 17, 127, 128, 129, 240, 241, 255, 256, 257};
    size_t n;
    switch (r.below(8)) {
    case 0:
    case 1: n = r.pick(hot); break;
    case 2: n = r.range(1, 8); break;
    case 3:
    case 4: n = r.range(1, 40); break;
    case 5: n = r.range(100, 300); break;
    default: n = r.range(1, 300); break;
    }
    if (tier == Tier::Thorough && r.chance(1, 40)) {
        static const size_t big[] = {4095, 4096, 4097, 10001, 20000, 1000, 2287, 2288};
        n = r.pick(big);
        return n; // explicit opt-in sizes ignore the cap
    }
    return std::min(n, cap);
}

inline uint64_t boundary_value(Rng &r) {
    static const uint64_t b[] = {0, 1, 127, 128, 240, 241, 255, 256, 2287, 2288, 65535, 65536, 67823, 67824,
                                 (1ULL << 24) - 1, 1ULL << 24, (1ULL << 32) - 1, 1ULL << 32, (1ULL << 40) - 1,
                                 1ULL << 40, (1ULL << 48) - 1, 1ULL << 48, (1ULL << 56) - 1, 1ULL << 56,
                                 (1ULL << 63) - 1, 1ULL << 63, ~0ULL - 1, ~0ULL};
    return r.pick(b);
}

inline uint64_t magnitude(Rng &r) { // a value of a random byte width
    unsigned bits = (unsigned)r.range(1, 64);
    uint64_t v = r.next();
    return bits == 64 ? v : (v & ((1ULL << bits) - 1));
}

inline std::vector<uint64_t> gen_array(Rng &r, size_t n, int cls) {
    std::vector<uint64_t> v(n);
    switch (cls) {
    case ARR_CONSTANT: {
        uint64_t c = r.chance(1, 2) ? magnitude(r) : boundary_value(r);
        for (auto &x : v) x = c;
        break;
    }
    case ARR_LOWCARD: {
        size_t k = r.range(1, 6);
        std::vector<uint64_t> d(k);
        for (auto &x : d) x = r.chance(1, 3) ? boundary_value(r) : magnitude(r);
        for (auto &x : v) x = d[r.below(k)];
        break;
    }
    case ARR_STRICT_INC16: {
        // choose n distinct values below 65536, ascending
        uint64_t maxstep = std::max<uint64_t>(1, 65535 / std::max<size_t>(n, 1));
        uint64_t step = r.chance(1, 3) ? 1 : r.range(1, maxstep);
        uint64_t span = (n - 1) * step;
        uint64_t cur = r.below(65536 - std::min<uint64_t>(span, 65535));
        for (size_t i = 0; i < n; i++) {
            v[i] = std::min<uint64_t>(cur, 65535);
            cur += (step > 1 && i + 1 < n) ? r.range(1, step) : 1;
        }
        // enforce strictness even at the clamp
        for (size_t i = 1; i < n; i++)
            if (v[i] <= v[i - 1]) v[i] = v[i - 1] + 1;
        if (!v.empty() && v.back() < 65535 && r.chance(1, 5)) { // end exactly at the top of the universe
            uint64_t up = 65535 - v.back();
            for (auto &x : v) x += up;
        } else if (!v.empty() && r.chance(1, 6)) { // start exactly at 0
            uint64_t down = v.front();
            for (auto &x : v) x -= down;
        }
        if (!v.empty() && v.back() > 65535) { // shift down
            uint64_t over = v.back() - 65535;
            for (auto &x : v) x = x >= over ? x - over : 0;
            for (size_t i = 1; i < n; i++)
                if (v[i] <= v[i - 1]) v[i] = v[i - 1] + 1;
        }
        break;
    }
    case ARR_SORTED: {
        uint64_t cur = r.chance(1, 2) ? r.below(1000) : magnitude(r) >> 1;
        uint64_t maxd = r.chance(1, 2) ? 16 : (r.chance(1, 2) ? 5000 : (1ULL << r.range(1, 40)));
        for (auto &x : v) {
            x = cur;
            uint64_t d = r.below(maxd + 1);
            cur = cur + d < cur ? cur : cur + d;
        }
        break;
    }
    case ARR_DESCENDING: {
        uint64_t cur = r.chance(1, 2) ? 100000 + r.below(100000) : magnitude(r);
        uint64_t maxd = r.chance(1, 2) ? 16 : 5000;
        for (auto &x : v) {
            x = cur;
            uint64_t d = r.below(maxd + 1);
            cur = cur >= d ? cur - d : 0;
        }
        break;
    }
    case ARR_CLUSTERED: {
        uint64_t base = r.chance(1, 2) ? r.below(100000) : magnitude(r) >> 2;
        uint64_t width = 1ULL << r.range(1, 20);
        for (auto &x : v) {
            x = base + r.below(width);
            if (r.chance(1, 25)) x = base + width + (magnitude(r) >> 2);
        }
        break;
    }
    case ARR_BOUNDARY:
        for (auto &x : v) x = boundary_value(r);
        break;
    case ARR_SMALL:
        for (auto &x : v) x = r.range(1, r.chance(1, 2) ? 10 : 1000);
        break;
    case ARR_WIDTH_EDGE: {
        unsigned w = (unsigned)r.range(1, 7);
        uint64_t full = (1ULL << (8 * w)) - 1;
        uint64_t base = r.chance(1, 2) ? 0 : (r.chance(1, 2) ? r.below(1000) : magnitude(r) >> 9);
        const uint64_t offs[] = {0, 1, full - 1, full, full, full + 1, full / 2};
        bool exceed = r.chance(1, 3);
        for (auto &x : v) {
            uint64_t o = offs[r.below(exceed ? 7 : 5)];
            if (!exceed && o > full) o = full;
            x = base + o;
        }
        break;
    }
    case ARR_POOL: {
        // number of distinct values near 15% / 90% of the length (or of a 1000-element sample)
        size_t pool;
        if (r.chance(1, 3)) {
            // skewed: a few common values plus a fraction of values that occur once, so that
            // the number of distinct values *seen by a sample* of n/10 (or of all n) varies
            // around 15% / 90% - estimators that sample land on either side of their threshold
            size_t sample = n > 10000 ? n / 10 : n;
            size_t common = 1 + r.below(std::max<size_t>(sample / 12, 2));
            size_t target = (r.chance(3, 4) ? sample * 15 / 100 : sample * 9 / 10);
            size_t singles = target > common ? target - common : 1; // expected singletons per `sample` draws
            singles += r.below(7);
            singles = singles > 3 ? singles - 3 : singles;
            std::vector<uint64_t> p(common);
            bool small = r.chance(1, 2);
            for (auto &x : p) x = small ? r.below(60000) : magnitude(r);
            uint64_t fresh = small ? 70000 : (1ull << 40) + r.below(1000);
            for (auto &x : v) x = r.below(sample) < singles ? fresh++ : p[r.below(common)];
            break;
        }
        switch (r.below(4)) {
        case 0: pool = n * 15 / 100 + r.below(4); break;
        case 1: pool = n * 9 / 10 + r.below(4); break;
        case 2: pool = r.range(120, 180); break;
        default: pool = r.range(1, std::max<size_t>(n, 2)); break;
        }
        if (pool < 1) pool = 1;
        std::vector<uint64_t> p(pool);
        bool small = r.chance(1, 2);
        for (auto &x : p) x = small ? r.below(60000) : magnitude(r);
        for (auto &x : v) x = p[r.below(pool)];
        break;
    }
    case ARR_LONGRUNS: {
        size_t k = r.range(1, 6), i = 0;
        for (size_t j = 0; j < k && i < n; j++) {
            size_t run = j + 1 == k ? n - i : r.range(1, std::max<size_t>(1, (n - i)));
            uint64_t val = r.chance(1, 3) ? 0 : (r.chance(1, 2) ? r.below(1000) : magnitude(r));
            for (size_t q = 0; q < run && i < n; q++, i++) v[i] = val;
        }
        break;
    }
    case ARR_BIGSTEP: {
        uint64_t cur = r.chance(1, 2) ? 0 : r.below(1000);
        size_t nj = r.range(1, 3);
        std::vector<size_t> at;
        for (size_t j = 0; j < nj; j++) at.push_back(r.below(std::max<size_t>(n, 1)));
        static const unsigned exps[] = {63, 63, 62, 32, 31, 33, 48, 56, 16};
        for (size_t i = 0; i < n; i++) {
            uint64_t step = r.chance(1, 3) ? 0 : r.below(r.chance(1, 2) ? 4 : 300);
            for (size_t a : at)
                if (a == i && i > 0) step = (1ULL << r.pick(exps)) + (r.chance(1, 2) ? 0 : r.below(1000));
            cur = cur + step < cur ? ~0ULL : cur + step; // saturate
            v[i] = cur;
        }
        break;
    }
    case ARR_PERIODIC: {
        static const size_t periods[] = {10, 10, 10, 5, 2, 8, 16, 4, 20, 100};
        size_t P = r.pick(periods);
        size_t phase = r.chance(2, 3) ? 0 : r.below(P);
        uint64_t c = r.chance(1, 2) ? r.below(1000) : magnitude(r);
        bool small = r.chance(1, 2);
        for (size_t i = 0; i < n; i++) v[i] = (i % P) == phase ? c : (small ? r.below(60000) : r.next());
        break;
    }
    case ARR_ZERORUNS: {
        // zero-width blocks, all-equal blocks, byte-aligned runs of the minimal value
        size_t i = 0;
        bool zeros = r.chance(1, 2);
        while (i < n) {
            size_t run = r.chance(1, 3) ? r.range(1, 6) : (r.chance(1, 2) ? r.range(7, 40) : (r.chance(1, 6) ? r.range(1000, 3000) : r.range(100, 200)));
            for (size_t k = 0; k < run && i < n; k++, i++) v[i] = zeros ? 0 : r.range(1, r.chance(1, 2) ? 9 : 70000);
            zeros = !zeros;
        }
        break;
    }
    default:
        for (auto &x : v) x = r.next();
        break;
    }
    return v;
}

} // namespace sim
