#include "plan.h"
#include "prng.h"
#include <cstdio>
#include <cstdlib>
#include <cstring>
#include <fstream>
#include <sstream>

namespace sim {

bool Op::has(const std::string &k) const {
    for (auto &a : args)
        if (a.first == k) return true;
    return false;
}
bool Op::is_all(const std::string &k) const { return s(k) == "all"; }
uint64_t Op::u(const std::string &k, uint64_t d) const {
    for (auto &a : args)
        if (a.first == k) {
            if (a.second.empty() || a.second == "all") return d;
            return strtoull(a.second.c_str(), nullptr, 0);
        }
    return d;
}
std::string Op::s(const std::string &k, const std::string &d) const {
    for (auto &a : args)
        if (a.first == k) return a.second;
    return d;
}
void Op::set(const std::string &k, uint64_t v) { sets(k, std::to_string(v)); }
void Op::sets(const std::string &k, const std::string &v) {
    for (auto &a : args)
        if (a.first == k) {
            a.second = v;
            return;
        }
    args.emplace_back(k, v);
}
void Op::erase(const std::string &k) {
    for (size_t i = 0; i < args.size(); i++)
        if (args[i].first == k) {
            args.erase(args.begin() + (long)i);
            return;
        }
}
std::vector<uint64_t> *Op::arr(const std::string &k) {
    for (auto &a : arrs)
        if (a.first == k) return &a.second;
    return nullptr;
}
const std::vector<uint64_t> *Op::arr(const std::string &k) const {
    for (auto &a : arrs)
        if (a.first == k) return &a.second;
    return nullptr;
}
std::vector<uint64_t> &Op::mkarr(const std::string &k) {
    if (auto *p = arr(k)) return *p;
    arrs.emplace_back(k, std::vector<uint64_t>());
    return arrs.back().second;
}

std::string Plan::knob(const std::string &k, const std::string &d) const {
    for (auto &a : knobs)
        if (a.first == k) return a.second;
    return d;
}
uint64_t Plan::knob_u(const std::string &k, uint64_t d) const {
    for (auto &a : knobs)
        if (a.first == k) return strtoull(a.second.c_str(), nullptr, 0);
    return d;
}
void Plan::set_knob(const std::string &k, const std::string &v) {
    for (auto &a : knobs)
        if (a.first == k) {
            a.second = v;
            return;
        }
    knobs.emplace_back(k, v);
}

static void arr_to_text(std::ostringstream &o, const std::vector<uint64_t> &v, size_t max_arr) {
    o << '[';
    size_t i = 0, printed = 0;
    bool first = true;
    while (i < v.size()) {
        if (printed >= max_arr) {
            o << " ...(" << v.size() << " values)";
            break;
        }
        size_t j = i;
        while (j < v.size() && v[j] == v[i]) j++;
        if (!first) o << ' ';
        first = false;
        o << v[i];
        if (j - i > 1) o << '*' << (j - i);
        i = j;
        printed++;
    }
    o << ']';
}

std::string op_to_text(const Op &op, size_t max_arr) {
    std::ostringstream o;
    o << op.kind;
    for (auto &a : op.args) o << ' ' << a.first << '=' << a.second;
    for (auto &a : op.arrs) {
        o << ' ' << a.first << '=';
        arr_to_text(o, a.second, max_arr);
    }
    return o.str();
}

std::string Plan::to_text() const {
    std::ostringstream o;
    o << "plan 1\n";
    o << "property " << property << "\n";
    o << "engine " << engine << "\n";
    o << "seed " << seed << "\n";
    for (auto &k : knobs) o << "knob " << k.first << '=' << k.second << "\n";
    for (auto &op : ops) o << "op " << op_to_text(op) << "\n";
    if (!expect_class.empty()) o << "expect " << expect_class << " " << expect_key << "\n";
    return o.str();
}

static bool parse_op(const std::string &line, Op &op, std::string &err) {
    size_t i = 0, n = line.size();
    auto skip = [&]() {
        while (i < n && (line[i] == ' ' || line[i] == '\t')) i++;
    };
    skip();
    size_t b = i;
    while (i < n && line[i] != ' ' && line[i] != '\t') i++;
    op.kind = line.substr(b, i - b);
    if (op.kind.empty()) {
        err = "empty op";
        return false;
    }
    for (;;) {
        skip();
        if (i >= n || line[i] == '#') break;
        b = i;
        while (i < n && line[i] != '=' && line[i] != ' ') i++;
        if (i >= n || line[i] != '=') {
            err = "expected key=value in: " + line;
            return false;
        }
        std::string key = line.substr(b, i - b);
        i++;
        if (i < n && line[i] == '[') {
            i++;
            std::vector<uint64_t> v;
            for (;;) {
                skip();
                if (i >= n) {
                    err = "unterminated array";
                    return false;
                }
                if (line[i] == ']') {
                    i++;
                    break;
                }
                b = i;
                while (i < n && line[i] != ' ' && line[i] != ']' && line[i] != '*') i++;
                uint64_t val = strtoull(line.substr(b, i - b).c_str(), nullptr, 0);
                uint64_t rep = 1;
                if (i < n && line[i] == '*') {
                    i++;
                    b = i;
                    while (i < n && line[i] != ' ' && line[i] != ']') i++;
                    rep = strtoull(line.substr(b, i - b).c_str(), nullptr, 0);
                }
                if (rep > (1u << 24)) {
                    err = "array repeat too large";
                    return false;
                }
                v.insert(v.end(), rep, val);
            }
            op.arrs.emplace_back(key, std::move(v));
        } else {
            b = i;
            while (i < n && line[i] != ' ' && line[i] != '\t') i++;
            op.args.emplace_back(key, line.substr(b, i - b));
        }
    }
    return true;
}

bool Plan::from_text(const std::string &text, Plan &out, std::string &err) {
    out = Plan();
    std::istringstream in(text);
    std::string line;
    while (std::getline(in, line)) {
        size_t p = line.find_first_not_of(" \t");
        if (p == std::string::npos || line[p] == '#') continue;
        std::string rest = line.substr(p);
        auto starts = [&](const char *w) { return rest.compare(0, strlen(w), w) == 0; };
        if (starts("plan ")) continue;
        if (starts("property ")) {
            out.property = rest.substr(9);
        } else if (starts("engine ")) {
            out.engine = rest.substr(7);
        } else if (starts("seed ")) {
            out.seed = strtoull(rest.c_str() + 5, nullptr, 0);
        } else if (starts("knob ")) {
            std::string kv = rest.substr(5);
            size_t e = kv.find('=');
            if (e == std::string::npos) {
                err = "bad knob: " + rest;
                return false;
            }
            out.knobs.emplace_back(kv.substr(0, e), kv.substr(e + 1));
        } else if (starts("op ")) {
            Op op;
            if (!parse_op(rest.substr(3), op, err)) return false;
            out.ops.push_back(std::move(op));
        } else if (starts("expect ")) {
            std::istringstream e(rest.substr(7));
            e >> out.expect_class;
            std::getline(e, out.expect_key);
            size_t q = out.expect_key.find_first_not_of(' ');
            out.expect_key = q == std::string::npos ? "" : out.expect_key.substr(q);
        } else {
            err = "unknown line: " + rest;
            return false;
        }
    }
    auto trim = [](std::string &s) {
        while (!s.empty() && (s.back() == ' ' || s.back() == '\r')) s.pop_back();
    };
    trim(out.property);
    trim(out.engine);
    return true;
}

bool Plan::load(const std::string &path, Plan &out, std::string &err) {
    std::ifstream f(path);
    if (!f) {
        err = "cannot open " + path;
        return false;
    }
    std::stringstream ss;
    ss << f.rdbuf();
    return from_text(ss.str(), out, err);
}

bool Plan::save(const std::string &path) const {
    std::ofstream f(path);
    if (!f) return false;
    f << to_text();
    return (bool)f;
}

uint64_t Plan::digest() const {
    uint64_t h = fnv1a(engine.data(), engine.size());
    for (auto &k : knobs) {
        h = fnv1a(k.first.data(), k.first.size(), h);
        h = fnv1a(k.second.data(), k.second.size(), h);
    }
    for (auto &op : ops) {
        std::string t = op_to_text(op);
        h = fnv1a(t.data(), t.size(), h);
        h = fnv1a("\n", 1, h);
    }
    return h;
}

} // namespace sim
