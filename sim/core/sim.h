// Core of the simulator: engine interface, event log, statistics, context
// notes for crash attribution, guarded (forked) execution, minimiser.
#pragma once
#include "plan.h"
#include "prng.h"
#include <map>
#include <string>
#include <vector>
#include <cstdint>

namespace sim {

enum class Tier { Quick, Thorough };

struct Bind { // concretisation of an "all" attribute: op index, attribute, value
    size_t op;
    std::string arg;
    uint64_t value;
};

struct Outcome {
    std::string cls = "ok"; // "ok", "skip" (baseline-invalid) or a violation class
    std::string key;        // what fails (known-finding key, without the property id)
    std::string detail;     // human-readable explanation
    uint64_t hash = 0;      // event-log hash of the execution
    uint64_t cases = 0;     // executions of the system under simulation performed
    std::vector<uint64_t> nontrivial; // digests of distinct non-trivial cases (see DESIGN 2.10)
    std::vector<Bind> binds;
    std::string concrete_plan; // optional: full text of the concretised plan (e.g. with the recorded schedule)
    bool violation() const { return cls != "ok" && cls != "skip"; }
};

// ---- event log: everything that defines "the same execution" -------------
struct EvLog {
    uint64_t h = 0xcbf29ce484222325ULL;
    void reset() { h = 0xcbf29ce484222325ULL; }
    void u64(uint64_t v) { h = fnv1a(&v, 8, h); }
    void str(const char *s);
    void bytes(const void *p, size_t n) {
        u64(n);
        h = fnv1a(p, n, h);
    }
};
extern EvLog g_log;

// ---- statistics (reach counters); summed over workers by the driver -------
void stat(const std::string &name, uint64_t n = 1);
void stat_max(const std::string &name, uint64_t v);
extern std::map<std::string, uint64_t> g_stats;

// ---- context notes: what the run was doing, for attributing a death -------
void ctx_note(const std::string &s);      // replaces the current note
void ctx_append(const std::string &s);    // appends to the current note
void ctx_bind(size_t op, const std::string &arg, uint64_t value); // records a concretisation
void ctx_clear();

// ---- step budget (pc-guard callbacks) -------------------------------------
extern "C" {
extern volatile uint64_t sim_steps;       // incremented by instrumented library code
extern uint64_t sim_step_budget;          // 0 = unlimited
}
void steps_begin(uint64_t budget);
uint64_t steps_end();

// ---- environment seam (sim/seams/envseam.cc): libc PRNG routed to a simulator stream
void env_reseed(uint64_t seed);
uint64_t env_draws();

// ---- stack scrub (2.2: uncontrolled residue is nondeterminism) ------------
void scrub_stack();

class Engine {
  public:
    virtual ~Engine() {}
    virtual const char *name() const = 0;     // e.g. "hist.bitmap"
    virtual const char *property() const = 0; // e.g. "C08"
    virtual uint64_t tag() const = 0;         // mixes into seed derivation
    virtual Plan generate(uint64_t seed, Tier tier) = 0;
    virtual Outcome execute(const Plan &plan) = 0;
    // attributes the minimiser may delete from an op
    virtual std::vector<std::string> droppable_args() const { return {}; }
    // attributes the minimiser must not change
    virtual std::vector<std::string> fixed_args() const { return {}; }
    // optional engine-specific simplifications
    virtual std::vector<Plan> simplify(const Plan &) { return {}; }
    // true if a violating run may have damaged the process (no sanitizer in this
    // build): the worker then restarts instead of carrying the damage along
    virtual bool restart_after_violation() const { return false; }
    // N > 0: every N-th run of a worker is executed in a pristine child process instead
    // of in the (warm) worker, so that first-use initialisation is also exercised
    virtual unsigned cold_start_every() const { return 0; }
    // When a violation seen inside a long-lived worker does not reproduce from its plan in a
    // pristine process, the engine may supply a plan that also replays what this process did
    // before (its hidden state: heap layout, addresses left on the stack).  Empty = none.
    virtual std::string history_plan(const Plan &) { return std::string(); }
    // wall-clock backstop per run, for builds without a step budget
    virtual unsigned hang_timeout_s() const { return 60; }
    // extra engine report (json object body without braces) appended to STATS
    virtual std::string report_json() { return ""; }
};

void register_engine(Engine *e);
Engine *find_engine(const std::string &name);

struct GuardedResult {
    Outcome out;
    bool died = false;
    std::string how; // "exit 77", "signal 11", ...
    std::string stderr_excerpt;
};
GuardedResult guarded_execute(Engine &e, const Plan &p, int timeout_s = 300);
Plan apply_binds(const Plan &p, const std::vector<Bind> &binds);
Plan minimise(Engine &e, const Plan &p, const std::string &cls, const std::string &key,
              int budget, int *tests_out);

std::string json_escape(const std::string &s);
int sim_main(int argc, char **argv);

} // namespace sim
