#include "sim.h"
#include <algorithm>
#include <cerrno>
#include <csignal>
#include <cstdio>
#include <cstdlib>
#include <cstring>
#include <ctime>
#include <fstream>
#include <set>
#include <unordered_set>
#include <sstream>
#include <sys/mman.h>
#include <sys/personality.h>
#include <sys/stat.h>
#include <spawn.h>
#include <sys/wait.h>
#include <unistd.h>

namespace sim {

EvLog g_log;
std::map<std::string, uint64_t> g_stats;

void EvLog::str(const char *s) { bytes(s, strlen(s)); }

void stat(const std::string &name, uint64_t n) { g_stats[name] += n; }
void stat_max(const std::string &name, uint64_t v) {
    uint64_t &r = g_stats[name];
    if (v > r) r = v;
}

// ---------------------------------------------------------------------------
// context notes live either in a private buffer or in the region shared with
// the supervising parent (guarded execution)
struct SharedBind {
    uint32_t op;
    char arg[28];
    uint64_t value;
};
struct Shared {
    char ctx[2048];
    uint32_t nbinds;
    SharedBind binds[16];
    int done;
    char cls[64];
    char key[768];
    char detail[8192];
    uint64_t hash, cases;
    uint32_t out_nbinds;
    SharedBind out_binds[16];
    uint32_t n_nt;
    uint64_t nt[8192];
    uint32_t plan_len;
    char plan_text[48u << 20];
};
// the private instance only needs the note/bind area (the large tail is never touched)
static Shared *make_private_shared() {
    void *m = mmap(nullptr, sizeof(Shared), PROT_READ | PROT_WRITE, MAP_PRIVATE | MAP_ANONYMOUS | MAP_NORESERVE, -1, 0);
    return (Shared *)m;
}
static Shared *g_sh = make_private_shared();

void ctx_note(const std::string &s) {
    size_t n = std::min(s.size(), sizeof(g_sh->ctx) - 1);
    memcpy(g_sh->ctx, s.data(), n);
    g_sh->ctx[n] = 0;
}
void ctx_append(const std::string &s) {
    size_t cur = strlen(g_sh->ctx);
    size_t n = std::min(s.size(), sizeof(g_sh->ctx) - 1 - cur);
    memcpy(g_sh->ctx + cur, s.data(), n);
    g_sh->ctx[cur + n] = 0;
}
void ctx_bind(size_t op, const std::string &arg, uint64_t value) {
    // replace an existing bind of the same (op, arg)
    for (uint32_t i = 0; i < g_sh->nbinds; i++)
        if (g_sh->binds[i].op == op && arg == g_sh->binds[i].arg) {
            g_sh->binds[i].value = value;
            return;
        }
    if (g_sh->nbinds >= 16) return;
    SharedBind &b = g_sh->binds[g_sh->nbinds++];
    b.op = (uint32_t)op;
    snprintf(b.arg, sizeof(b.arg), "%s", arg.c_str());
    b.value = value;
}
void ctx_clear() {
    g_sh->ctx[0] = 0;
    g_sh->nbinds = 0;
}

// ---------------------------------------------------------------------------
extern "C" {
volatile uint64_t sim_steps = 0;
uint64_t sim_step_budget = 0;
// > 0 while simulator code (allocator shim, scheduler hooks) runs: such code is
// atomic with respect to the scheduler and is never traced as a task access
volatile int sim_atomic_depth = 0;
}
void steps_begin(uint64_t budget) {
    sim_steps = 0;
    sim_step_budget = budget;
}
uint64_t steps_end() {
    sim_step_budget = 0;
    return sim_steps;
}

__attribute__((noinline)) void scrub_stack() {
    volatile char buf[65536];
    memset((void *)buf, 0, sizeof(buf));
    __asm__ volatile("" ::"r"(buf) : "memory");
}

// ---------------------------------------------------------------------------
static std::vector<Engine *> &engines() {
    static std::vector<Engine *> v;
    return v;
}
void register_engine(Engine *e) { engines().push_back(e); }
Engine *find_engine(const std::string &name) {
    for (auto *e : engines())
        if (name == e->name()) return e;
    return nullptr;
}

std::string json_escape(const std::string &s) {
    std::string o;
    for (unsigned char c : s) {
        switch (c) {
        case '"': o += "\\\""; break;
        case '\\': o += "\\\\"; break;
        case '\n': o += "\\n"; break;
        case '\t': o += "\\t"; break;
        case '\r': o += "\\r"; break;
        default:
            if (c < 0x20) {
                char b[8];
                snprintf(b, sizeof b, "\\u%04x", c);
                o += b;
            } else
                o += (char)c;
        }
    }
    return o;
}

Plan apply_binds(const Plan &p, const std::vector<Bind> &binds) {
    Plan q = p;
    for (auto &b : binds)
        if (b.op < q.ops.size()) q.ops[b.op].set(b.arg, b.value);
    return q;
}

// the plan that reproduces exactly the violating case of `o`
static Plan concretise(const Plan &p, const Outcome &o) {
    if (!o.concrete_plan.empty()) {
        Plan q;
        std::string err;
        if (Plan::from_text(o.concrete_plan, q, err)) return q;
    }
    return apply_binds(p, o.binds);
}

// ---------------------------------------------------------------------------
// Parse a sanitizer report: error type, access kind, first frame in library source
static std::string parse_asan(const std::string &err, std::string &cls) {
    size_t p = err.find("ERROR: AddressSanitizer:");
    if (p == std::string::npos) {
        p = err.find("ERROR: AddressSanitizer");
        if (p == std::string::npos) return "";
    }
    std::string type;
    {
        size_t b = err.find(':', p + 7);
        b = err.find_first_not_of(" ", b + 1);
        size_t e = err.find_first_of(" \n", b);
        type = err.substr(b, e - b);
    }
    cls = (type == "SEGV" || type == "FPE" || type == "ILL" || type == "ABRT" || type == "BUS")
              ? "crash"
              : "memory-safety";
    std::string access;
    if (err.find("\nREAD of size", p) != std::string::npos) access = "READ";
    if (err.find("\nWRITE of size", p) != std::string::npos) access = "WRITE";
    // frames of the first stack only (until the first blank line after "#0")
    std::string func;
    size_t f0 = err.find("    #0 ", p);
    if (f0 != std::string::npos) {
        size_t end = err.find("\n\n", f0);
        std::string stack = err.substr(f0, end == std::string::npos ? std::string::npos : end - f0);
        std::istringstream in(stack);
        std::string line;
        while (std::getline(in, line)) {
            size_t in_pos = line.find(" in ");
            if (in_pos == std::string::npos) continue;
            if (line.find("/src/varint") == std::string::npos) continue;
            size_t b = in_pos + 4;
            size_t e = line.find(' ', b);
            func = line.substr(b, e - b);
            break;
        }
    }
    std::string k = type;
    if (!access.empty()) k += ":" + access;
    if (!func.empty()) k += ":" + func;
    return k;
}

static std::string read_fd_all(int fd, size_t limit = (size_t)1 << 20) {
    std::string s;
    lseek(fd, 0, SEEK_SET);
    char buf[65536];
    ssize_t n;
    while ((n = read(fd, buf, sizeof buf)) > 0) {
        s.append(buf, (size_t)n);
        if (s.size() > limit) break;
    }
    return s;
}

// The child side of guarded execution: a pristine process whose whole world is
// (this binary, the canonical plan text on fd 200).  Results go to the shared
// region on fd 201, stderr to fd 2 (a memfd owned by the parent).
static void publish_outcome(Shared *sh, const Outcome &o) {
    snprintf(sh->cls, sizeof sh->cls, "%s", o.cls.c_str());
    snprintf(sh->key, sizeof sh->key, "%s", o.key.c_str());
    snprintf(sh->detail, sizeof sh->detail, "%s", o.detail.c_str());
    sh->hash = o.hash;
    sh->cases = o.cases;
    sh->out_nbinds = 0;
    for (auto &b : o.binds) {
        if (sh->out_nbinds >= 16) break;
        SharedBind &sb = sh->out_binds[sh->out_nbinds++];
        sb.op = (uint32_t)b.op;
        snprintf(sb.arg, sizeof sb.arg, "%s", b.arg.c_str());
        sb.value = b.value;
    }
    sh->n_nt = (uint32_t)std::min<size_t>(o.nontrivial.size(), 8192);
    for (uint32_t i = 0; i < sh->n_nt; i++) sh->nt[i] = o.nontrivial[i];
    sh->plan_len = (uint32_t)std::min<size_t>(o.concrete_plan.size(), sizeof(sh->plan_text) - 1);
    memcpy(sh->plan_text, o.concrete_plan.data(), sh->plan_len);
    sh->done = 1;
}

static int child_main(Engine &e) {
    Shared *sh = (Shared *)mmap(nullptr, sizeof(Shared), PROT_READ | PROT_WRITE, MAP_SHARED, 201, 0);
    if (sh == MAP_FAILED) return 3;
    std::string text = read_fd_all(200, (size_t)1 << 31); // plans can be large (tens of thousands of values)
    Plan p;
    std::string err;
    if (!Plan::from_text(text, p, err)) return 3;
    close(200);
    alarm(e.hang_timeout_s()); // wall-clock backstop; deterministic termination verdicts come from the step budget
    g_sh = sh;
    g_log.reset();
    ctx_clear();
    scrub_stack();
    env_reseed(p.seed);
    Outcome o = e.execute(p);
    publish_outcome(sh, o);
    fflush(stdout);
    _exit(0);
}

GuardedResult guarded_execute(Engine &e, const Plan &p, int timeout_s) {
    (void)timeout_s;
    GuardedResult r;
    int sfd = memfd_create("sim-shared", 0);
    if (sfd < 0 || ftruncate(sfd, sizeof(Shared)) != 0) {
        perror("memfd");
        exit(3);
    }
    Shared *sh = (Shared *)mmap(nullptr, sizeof(Shared), PROT_READ | PROT_WRITE, MAP_SHARED, sfd, 0);
    if (sh == MAP_FAILED) {
        perror("mmap");
        exit(3);
    }
    int efd = memfd_create("sim-stderr", 0);
    int pfd = memfd_create("sim-plan", 0);
    {
        // canonical text: the same plan always reaches the child as the same bytes,
        // whatever comments or expectation lines its file carried
        Plan canon = p;
        canon.expect_class.clear();
        canon.expect_key.clear();
        std::string t = canon.to_text();
        if (write(pfd, t.data(), t.size()) != (ssize_t)t.size()) {
            perror("write plan");
            exit(3);
        }
        lseek(pfd, 0, SEEK_SET);
    }
    fflush(stdout);
    fflush(stderr);
    posix_spawn_file_actions_t fa;
    posix_spawn_file_actions_init(&fa);
    posix_spawn_file_actions_adddup2(&fa, pfd, 200);
    posix_spawn_file_actions_adddup2(&fa, sfd, 201);
    posix_spawn_file_actions_adddup2(&fa, efd, 2);
    std::string ename = e.name();
    const char *cargv[] = {"sim", ename.c_str(), "child", nullptr};
    // fixed, minimal environment: the child's stack and heap layout must not
    // depend on who launched the check
    const char *cenv[] = {"PATH=/usr/local/sbin:/usr/local/bin:/usr/sbin:/usr/bin:/sbin:/bin", "SIM_NO_REEXEC=1",
                          "LANG=C",
                          // no per-thread cache in glibc's allocator: freed chunks then carry no
                          // random key, so heap residue seen by a stray read is a function of the run
                          "GLIBC_TUNABLES=glibc.malloc.tcache_count=0", nullptr};
    pid_t pid;
    int rc = posix_spawn(&pid, "/proc/self/exe", &fa, nullptr, (char *const *)cargv, (char *const *)cenv);
    posix_spawn_file_actions_destroy(&fa);
    if (rc != 0) {
        fprintf(stderr, "posix_spawn failed: %s\n", strerror(rc));
        exit(3);
    }
    int status = 0;
    while (waitpid(pid, &status, 0) < 0 && errno == EINTR) {
    }
    std::string err = efd >= 0 ? read_fd_all(efd) : "";
    if (efd >= 0) close(efd);
    if (WIFEXITED(status) && WEXITSTATUS(status) == 0 && sh->done) {
        r.out.cls = sh->cls;
        r.out.key = sh->key;
        r.out.detail = sh->detail;
        r.out.hash = sh->hash;
        r.out.cases = sh->cases;
        for (uint32_t i = 0; i < sh->out_nbinds; i++)
            r.out.binds.push_back({sh->out_binds[i].op, sh->out_binds[i].arg, sh->out_binds[i].value});
        r.out.nontrivial.assign(sh->nt, sh->nt + sh->n_nt);
        r.out.concrete_plan.assign(sh->plan_text, sh->plan_len);
    } else {
        r.died = true;
        std::string ctx = sh->ctx;
        for (uint32_t i = 0; i < sh->nbinds; i++)
            r.out.binds.push_back({sh->binds[i].op, sh->binds[i].arg, sh->binds[i].value});
        std::string cls = "crash", extra;
        if (WIFEXITED(status)) {
            int code = WEXITSTATUS(status);
            r.how = "exit " + std::to_string(code);
            if (code == 77) {
                extra = parse_asan(err, cls);
            } else if (code == 78) {
                cls = "hang";
                extra = "step-budget";
            } else {
                extra = "exit" + std::to_string(code);
            }
        } else if (WIFSIGNALED(status)) {
            int sig = WTERMSIG(status);
            r.how = "signal " + std::to_string(sig);
            if (sig == SIGALRM && !e.restart_after_violation()) {
                cls = "hang";
                extra = "wallclock";
            } else if (sig == SIGALRM) {
                // unsanitised build without a step budget: whether a derailed call dies or
                // spins until the backstop fires depends on timing, so both are one class
                extra = "killed-by-signal";
                r.how += " (SIGALRM: wall-clock backstop)";
            } else {
                // which signal ends a run after memory corruption depends on heap
                // layout; the key only says that the process was killed
                extra = "killed-by-signal";
                r.how += std::string(" (SIG") + sigabbrev_np(sig) + ")";
            }
        }
        if (ctx.find(" phase=verify") != std::string::npos) {
            // died while decoding the output of a call that reported success
            cls = "wrong-success";
        }
        // a note may carry detail after " |" that is reported but is not part of the key
        std::string full_ctx = ctx;
        size_t bar = ctx.find(" |");
        if (bar != std::string::npos) ctx = ctx.substr(0, bar);
        r.out.cls = cls;
        r.out.key = ctx.empty() ? extra : (extra.empty() ? ctx : ctx + " " + extra);
        r.out.detail = "process died (" + r.how + ") while: " + full_ctx;
        r.stderr_excerpt = err.substr(0, 6000);
    }
    munmap(sh, sizeof(Shared));
    close(sfd);
    close(pfd);
    return r;
}

// ---------------------------------------------------------------------------
Plan minimise(Engine &e, const Plan &p0, const std::string &cls, const std::string &key, int budget,
              int *tests_out) {
    Plan best = p0;
    int tests = 0;
    time_t t_start = time(nullptr);
    auto ok = [&](const Plan &c) {
        if (tests >= budget) return false;
        if (time(nullptr) - t_start > 45) { // a smaller replay is a convenience, not a verdict
            tests = budget;
            return false;
        }
        tests++;
        GuardedResult r = guarded_execute(e, c);
        return r.out.cls == cls && r.out.key == key;
    };
    auto fixed = e.fixed_args();
    auto droppable = e.droppable_args();
    auto is_fixed = [&](const std::string &a) {
        return std::find(fixed.begin(), fixed.end(), a) != fixed.end();
    };
    bool progress = true;
    int rounds = 0;
    while (progress && tests < budget && rounds++ < 8) {
        progress = false;
        // 1. delta-debug the operation list
        for (size_t chunk = std::max<size_t>(best.ops.size() / 2, 1);; chunk /= 2) {
            for (size_t start = 0; start < best.ops.size();) {
                if (best.ops.size() <= 1) break;
                size_t len = std::min(chunk, best.ops.size() - start);
                if (len == best.ops.size()) {
                    start += chunk;
                    continue;
                }
                Plan c = best;
                c.ops.erase(c.ops.begin() + (long)start, c.ops.begin() + (long)(start + len));
                if (ok(c)) {
                    best = c;
                    progress = true;
                } else
                    start += chunk;
                if (tests >= budget) break;
            }
            if (chunk <= 1 || tests >= budget) break;
        }
        // 2. drop fault attachments that are not needed
        for (size_t i = 0; i < best.ops.size() && tests < budget; i++)
            for (auto &d : droppable)
                if (best.ops[i].has(d)) {
                    Plan c = best;
                    c.ops[i].erase(d);
                    if (ok(c)) {
                        best = c;
                        progress = true;
                    }
                }
        // 3. engine-specific simplifications
        for (int guard = 0; guard < 20 && tests < budget; guard++) {
            bool any = false;
            for (auto &c : e.simplify(best)) {
                if (tests >= budget) break;
                if (c.to_text() == best.to_text()) continue;
                if (ok(c)) {
                    best = c;
                    any = progress = true;
                    break;
                }
            }
            if (!any) break;
        }
        // 4. shorten arrays
        for (size_t i = 0; i < best.ops.size() && tests < budget; i++)
            for (size_t a = 0; a < best.ops[i].arrs.size() && tests < budget; a++) {
                bool again = true;
                while (again && tests < budget) {
                    again = false;
                    auto cur = best.ops[i].arrs[a].second;
                    size_t n = cur.size();
                    if (n <= 1) break;
                    std::vector<std::vector<uint64_t>> cands;
                    cands.emplace_back(cur.begin(), cur.begin() + (long)(n / 2));
                    cands.emplace_back(cur.begin() + (long)(n / 2), cur.end());
                    if (n > 4) {
                        cands.emplace_back(cur.begin(), cur.begin() + (long)(n - n / 4));
                        cands.emplace_back(cur.begin() + (long)(n / 4), cur.end());
                    }
                    cands.emplace_back(cur.begin(), cur.end() - 1);
                    cands.emplace_back(cur.begin() + 1, cur.end());
                    for (auto &cv : cands) {
                        Plan c = best;
                        c.ops[i].arrs[a].second = cv;
                        if (ok(c)) {
                            best = c;
                            again = progress = true;
                            break;
                        }
                    }
                }
                // drop single elements of short arrays
                auto &arr = best.ops[i].arrs[a].second;
                if (arr.size() <= 24)
                    for (size_t k = 0; k < best.ops[i].arrs[a].second.size() && tests < budget;) {
                        if (best.ops[i].arrs[a].second.size() <= 1) break;
                        Plan c = best;
                        auto &v = c.ops[i].arrs[a].second;
                        v.erase(v.begin() + (long)k);
                        if (ok(c)) {
                            best = c;
                            progress = true;
                        } else
                            k++;
                    }
            }
        // 5. simplify scalar attributes
        for (size_t i = 0; i < best.ops.size() && tests < budget; i++)
            for (size_t a = 0; a < best.ops[i].args.size() && tests < budget; a++) {
                auto kv = best.ops[i].args[a];
                if (is_fixed(kv.first) || kv.second == "all" || kv.second.empty()) continue;
                if (!isdigit((unsigned char)kv.second[0])) continue;
                uint64_t v = strtoull(kv.second.c_str(), nullptr, 0);
                std::vector<uint64_t> tries;
                if (v > 0) tries.push_back(0);
                if (v > 1) tries.push_back(1);
                if (v > 3) tries.push_back(v / 2);
                if (v > 2) tries.push_back(v - 1);
                for (uint64_t t : tries) {
                    Plan c = best;
                    c.ops[i].args[a].second = std::to_string(t);
                    if (ok(c)) {
                        best = c;
                        progress = true;
                        break;
                    }
                }
            }
        // 6. simplify array values (short arrays only)
        for (size_t i = 0; i < best.ops.size() && tests < budget; i++)
            for (size_t a = 0; a < best.ops[i].arrs.size() && tests < budget; a++) {
                if (best.ops[i].arrs[a].second.size() > 16) continue;
                for (size_t k = 0; k < best.ops[i].arrs[a].second.size() && tests < budget; k++) {
                    uint64_t v = best.ops[i].arrs[a].second[k];
                    std::vector<uint64_t> tries;
                    if (v > 0) tries.push_back(0);
                    if (v > 1) tries.push_back(1);
                    if (v > 3) tries.push_back(v / 2);
                    for (uint64_t t : tries) {
                        Plan c = best;
                        c.ops[i].arrs[a].second[k] = t;
                        if (ok(c)) {
                            best = c;
                            progress = true;
                            break;
                        }
                    }
                }
            }
    }
    if (tests_out) *tests_out = tests;
    best.expect_class = cls;
    best.expect_key = key;
    return best;
}

// ---------------------------------------------------------------------------
static std::string stats_json(Engine &e, uint64_t runs, uint64_t cases, uint64_t violations,
                              uint64_t skips) {
    std::ostringstream o;
    o << "{\"runs\":" << runs << ",\"cases\":" << cases << ",\"violations\":" << violations
      << ",\"skips\":" << skips << ",\"counters\":{";
    bool first = true;
    for (auto &kv : g_stats) {
        if (!first) o << ',';
        first = false;
        o << '"' << json_escape(kv.first) << "\":" << kv.second;
    }
    o << "}";
    std::string extra = e.report_json();
    if (!extra.empty()) o << "," << extra;
    o << "}";
    return o.str();
}

static const char *arg_value(int argc, char **argv, const char *name, const char *dflt) {
    for (int i = 0; i + 1 < argc; i++)
        if (!strcmp(argv[i], name)) return argv[i + 1];
    return dflt;
}
static bool arg_flag(int argc, char **argv, const char *name) {
    for (int i = 0; i < argc; i++)
        if (!strcmp(argv[i], name)) return true;
    return false;
}

static void print_result(const Outcome &o) {
    printf("RESULT class=%s hash=%016llx cases=%llu key=%s\n", o.cls.c_str(),
           (unsigned long long)o.hash, (unsigned long long)o.cases, o.key.c_str());
    if (!o.detail.empty()) printf("DETAIL %s\n", json_escape(o.detail).c_str());
}

int sim_main(int argc, char **argv) {
    // Address-space randomisation is a nondeterminism source for anything that
    // goes wrong after memory corruption (which signal, which report): every
    // simulator process runs with it disabled.
    {
        int pers = personality(0xffffffff);
        if (pers != -1 && (pers & ADDR_NO_RANDOMIZE) && getenv("SIM_KEEP_ASLR")) {
            // "fresh process" context of E-RESIDUE: a different address-space layout on purpose
            if (personality(pers & ~ADDR_NO_RANDOMIZE) != -1) execv("/proc/self/exe", argv);
        }
        if (pers != -1 && !(pers & ADDR_NO_RANDOMIZE) && !getenv("SIM_NO_REEXEC")) {
            if (personality(pers | ADDR_NO_RANDOMIZE) != -1) {
                setenv("SIM_NO_REEXEC", "1", 1);
                execv("/proc/self/exe", argv);
            }
        }
    }
    if (argc < 3) {
        fprintf(stderr,
                "usage: %s <engine> run|gen|exec|min|list ...\n"
                "engines:",
                argv[0]);
        for (auto *e : engines()) fprintf(stderr, " %s", e->name());
        fprintf(stderr, "\n");
        return 3;
    }
    std::string ename = argv[1], mode = argv[2];
    if (ename == "list") {
        for (auto *e : engines()) printf("%s %s\n", e->name(), e->property());
        return 0;
    }
    if (mode == "merge-nt") { // count distinct 64-bit digests over the given files
        std::vector<uint64_t> all;
        for (int i = 3; i < argc; i++) {
            FILE *f = fopen(argv[i], "rb");
            if (!f) continue;
            uint64_t buf[4096];
            size_t n;
            while ((n = fread(buf, 8, 4096, f)) > 0) all.insert(all.end(), buf, buf + n);
            fclose(f);
        }
        std::sort(all.begin(), all.end());
        all.erase(std::unique(all.begin(), all.end()), all.end());
        printf("DISTINCT %zu\n", all.size());
        return 0;
    }
    Engine *e = find_engine(ename);
    if (!e) {
        fprintf(stderr, "unknown engine %s\n", ename.c_str());
        return 3;
    }
    Tier tier = !strcmp(arg_value(argc, argv, "--tier", "quick"), "thorough") ? Tier::Thorough
                                                                             : Tier::Quick;
    setvbuf(stdout, nullptr, _IOFBF, 1 << 16);

    if (mode == "gen") {
        uint64_t seed;
        if (arg_value(argc, argv, "--idx", nullptr)) {
            uint64_t base = strtoull(arg_value(argc, argv, "--base", "1"), nullptr, 0);
            uint64_t idx = strtoull(arg_value(argc, argv, "--idx", "0"), nullptr, 0);
            seed = derive_seed(base, e->tag(), idx);
        } else
            seed = strtoull(arg_value(argc, argv, "--seed", "1"), nullptr, 0);
        Plan p = e->generate(seed, tier);
        fputs(p.to_text().c_str(), stdout);
        return 0;
    }
    if (mode == "exec") {
        const char *path = arg_value(argc, argv, "--plan", nullptr);
        Plan p;
        std::string err;
        if (!path || !Plan::load(path, p, err)) {
            fprintf(stderr, "cannot load plan: %s\n", err.c_str());
            return 3;
        }
        GuardedResult r = guarded_execute(*e, p);
        print_result(r.out);
        if (r.died) printf("DIED %s\n", r.how.c_str());
        if (!r.stderr_excerpt.empty() && arg_flag(argc, argv, "--show-stderr"))
            printf("STDERR %s\n", json_escape(r.stderr_excerpt).c_str());
        const char *co = arg_value(argc, argv, "--concrete-out", nullptr);
        if (co) {
            Plan q = concretise(p, r.out);
            if (r.out.violation()) {
                q.expect_class = r.out.cls;
                q.expect_key = r.out.key;
            }
            q.save(co);
        }
        fflush(stdout);
        return r.out.violation() ? 1 : 0;
    }
    if (mode == "child") return child_main(*e);
    if (mode == "ctx") { // in-process execution of one plan (used by the fresh-process context)
        const char *path = arg_value(argc, argv, "--plan", nullptr);
        Plan p;
        std::string err;
        if (!path || !Plan::load(path, p, err)) return 3;
        env_reseed(p.seed);
        Outcome o = e->execute(p);
        print_result(o);
        fflush(stdout);
        return 0;
    }
    if (mode == "min") {
        const char *path = arg_value(argc, argv, "--plan", nullptr);
        const char *outp = arg_value(argc, argv, "--out", nullptr);
        int budget = atoi(arg_value(argc, argv, "--budget", "300"));
        Plan p;
        std::string err;
        if (!path || !outp || !Plan::load(path, p, err)) {
            fprintf(stderr, "cannot load plan: %s\n", err.c_str());
            return 3;
        }
        GuardedResult r0 = guarded_execute(*e, p);
        if (!r0.out.violation()) {
            printf("MIN no-violation\n");
            return 2;
        }
        Plan q = concretise(p, r0.out);
        int tests = 0;
        if (r0.out.cls == "hang") budget = std::min(budget, 6); // every test of a hang costs the full timeout
        Plan m = minimise(*e, q, r0.out.cls, r0.out.key, budget, &tests);
        m.save(outp);
        printf("MIN class=%s tests=%d ops=%zu->%zu key=%s\n", r0.out.cls.c_str(), tests, p.ops.size(),
               m.ops.size(), r0.out.key.c_str());
        return 0;
    }
    if (mode == "run") {
        uint64_t base = strtoull(arg_value(argc, argv, "--base", "1"), nullptr, 0);
        uint64_t from = strtoull(arg_value(argc, argv, "--from", "0"), nullptr, 0);
        uint64_t stride = strtoull(arg_value(argc, argv, "--stride", "1"), nullptr, 0);
        uint64_t limit = strtoull(arg_value(argc, argv, "--limit", "100"), nullptr, 0);
        long deadline = atol(arg_value(argc, argv, "--deadline", "0"));
        int samples = atoi(arg_value(argc, argv, "--samples", "0"));
        bool hashes = arg_flag(argc, argv, "--hashes");
        bool all_cold = arg_flag(argc, argv, "--all-cold"); // every run in a pristine child
        uint64_t hash_limit = strtoull(arg_value(argc, argv, "--hash-limit", "18446744073709551615"), nullptr, 0);
        std::string cand = arg_value(argc, argv, "--cand-dir", "out/cand");
        const char *ntpath = arg_value(argc, argv, "--nt-out", nullptr);
        FILE *ntf = ntpath ? fopen(ntpath, "ab") : nullptr;
        std::unordered_set<uint64_t> nt_seen;
        const size_t NT_CAP = 2000000;
        bool nt_capped = false;
        uint64_t runs = 0, cases = 0, viol = 0, skips = 0;
        for (uint64_t idx = from; idx < limit; idx += stride) {
            if (deadline && (runs & 15) == 0 && time(nullptr) >= deadline) break;
            uint64_t seed = derive_seed(base, e->tag(), idx);
            printf("B %llu %llu\n", (unsigned long long)idx, (unsigned long long)seed);
            fflush(stdout);
            Plan p = e->generate(seed, tier);
            if (samples > 0) {
                samples--;
                std::string t;
                t = "seed " + std::to_string(seed);
                for (auto &k : p.knobs) t += " | knob " + k.first + "=" + k.second;
                for (auto &op : p.ops) t += " | " + op_to_text(op, 12);
                if (t.size() > 3000) t = t.substr(0, 3000) + " ...";
                printf("SAMPLE %s\n", json_escape(t).c_str());
            }
            g_log.reset();
            ctx_clear();
            scrub_stack();
            Outcome o;
            unsigned cold = getenv("SIM_NO_COLD") ? 0 : e->cold_start_every();
            if (all_cold || (cold && idx % cold == cold - 1)) {
                GuardedResult gr = guarded_execute(*e, p);
                o = gr.out;
                stat("cold_start_runs");
            } else {
                alarm(e->hang_timeout_s()); // backstop only: a run that never returns kills the worker
                env_reseed(p.seed);
                o = e->execute(p);
                alarm(0);
            }
            runs++;
            cases += o.cases;
            if (o.cls == "skip") skips++;
            for (uint64_t h : o.nontrivial) {
                // exact up to NT_CAP digests per worker, a lower bound beyond that
                if (nt_seen.size() >= NT_CAP) {
                    nt_capped = true;
                    break;
                }
                if (nt_seen.insert(h).second && ntf) fwrite(&h, 8, 1, ntf);
            }
            if (hashes && idx < hash_limit)
                printf("E %llu %016llx %s\n", (unsigned long long)idx, (unsigned long long)o.hash,
                       o.cls.c_str());
            if (o.violation()) {
                viol++;
                Plan q = concretise(p, o);
                q.expect_class = o.cls;
                q.expect_key = o.key;
                mkdir(cand.c_str(), 0777);
                std::string path = cand + "/" + e->name() + "-" + std::to_string(seed) + ".plan";
                q.save(path);
                {
                    // does the plan alone name this violation?  If the pristine process disagrees,
                    // try the plan that also replays this worker's earlier operations.
                    std::string hp = e->history_plan(q);
                    if (!hp.empty()) {
                        GuardedResult g0 = guarded_execute(*e, q);
                        if (!(g0.out.cls == o.cls && g0.out.key == o.key)) {
                            Plan h;
                            std::string err;
                            if (Plan::from_text(hp, h, err)) {
                                h.expect_class = o.cls;
                                h.expect_key = o.key;
                                GuardedResult g1 = guarded_execute(*e, h);
                                if (g1.out.cls == o.cls && g1.out.key == o.key) {
                                    h.save(path);
                                    stat("violations_replayed_with_worker_history");
                                } else
                                    stat("violations_not_reproduced_in_pristine_process");
                            }
                        }
                    }
                }
                printf("V %llu %llu %016llx class=%s plan=%s key=%s\n", (unsigned long long)idx,
                       (unsigned long long)seed, (unsigned long long)o.hash, o.cls.c_str(),
                       path.c_str(), o.key.c_str());
                printf("D %s\n", json_escape(o.detail).c_str());
                if (e->restart_after_violation()) {
                    printf("STATS %s\n", stats_json(*e, runs, cases, viol, skips).c_str());
                    printf("RESTART %llu\n", (unsigned long long)idx);
                    fflush(stdout);
                    if (ntf) fclose(ntf);
                    _exit(0);
                }
            }
            if ((runs & 1023) == 0) {
                printf("STATS %s\n", stats_json(*e, runs, cases, viol, skips).c_str());
                if (ntf) fflush(ntf);
            }
        }
        if (nt_capped) stat("distinct_digest_cap_reached_workers");
        printf("STATS %s\n", stats_json(*e, runs, cases, viol, skips).c_str());
        printf("DONE %llu\n", (unsigned long long)runs);
        fflush(stdout);
        if (ntf) fclose(ntf);
        return 0;
    }
    fprintf(stderr, "unknown mode %s\n", mode.c_str());
    return 3;
}

} // namespace sim
