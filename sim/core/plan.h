// Plans: the explicit, self-contained description of one simulated run.
// A plan file is the replay file: execution is a pure function of (plan, code).
#pragma once
#include <cstdint>
#include <string>
#include <vector>
#include <utility>

namespace sim {

struct Op {
    std::string kind;
    // scalar attributes, ordered; values are decimal integers or the word "all"
    std::vector<std::pair<std::string, std::string>> args;
    // array attributes, ordered
    std::vector<std::pair<std::string, std::vector<uint64_t>>> arrs;

    bool has(const std::string &k) const;
    bool is_all(const std::string &k) const;
    uint64_t u(const std::string &k, uint64_t dflt = 0) const;
    std::string s(const std::string &k, const std::string &dflt = "") const;
    void set(const std::string &k, uint64_t v);
    void sets(const std::string &k, const std::string &v);
    void erase(const std::string &k);
    std::vector<uint64_t> *arr(const std::string &k);
    const std::vector<uint64_t> *arr(const std::string &k) const;
    std::vector<uint64_t> &mkarr(const std::string &k);
};

struct Plan {
    std::string property;
    std::string engine;
    uint64_t seed = 0;
    std::vector<std::pair<std::string, std::string>> knobs;
    std::vector<Op> ops;
    // filled in by the minimiser / gate; informational
    std::string expect_class, expect_key;

    std::string knob(const std::string &k, const std::string &dflt = "") const;
    uint64_t knob_u(const std::string &k, uint64_t dflt = 0) const;
    void set_knob(const std::string &k, const std::string &v);

    std::string to_text() const;
    static bool from_text(const std::string &text, Plan &out, std::string &err);
    static bool load(const std::string &path, Plan &out, std::string &err);
    bool save(const std::string &path) const;
    uint64_t digest() const; // hash of the operations (not of seed/expectation)
};

std::string op_to_text(const Op &op, size_t max_arr = (size_t)-1);

} // namespace sim
