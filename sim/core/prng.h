// Deterministic PRNGs: splitmix64 (seed derivation) and xoshiro256** (per-run stream).
#pragma once
#include <cstdint>
#include <cstddef>
#include <vector>

namespace sim {

inline uint64_t splitmix64(uint64_t &x) {
    uint64_t z = (x += 0x9e3779b97f4a7c15ULL);
    z = (z ^ (z >> 30)) * 0xbf58476d1ce4e5b9ULL;
    z = (z ^ (z >> 27)) * 0x94d049bb133111ebULL;
    return z ^ (z >> 31);
}

// seed of run i of a batch: a pure function of (base seed, engine tag, i)
inline uint64_t derive_seed(uint64_t base, uint64_t tag, uint64_t i) {
    uint64_t x = base ^ (tag * 0x9e3779b97f4a7c15ULL);
    (void)splitmix64(x);
    x ^= i * 0xd1342543de82ef95ULL + 0x2545f4914f6cdd1dULL;
    return splitmix64(x);
}

inline uint64_t fnv1a(const void *p, size_t n, uint64_t h = 0xcbf29ce484222325ULL) {
    const unsigned char *c = (const unsigned char *)p;
    for (size_t i = 0; i < n; i++) {
        h ^= c[i];
        h *= 0x100000001b3ULL;
    }
    return h;
}

struct Rng {
    uint64_t s[4];
    explicit Rng(uint64_t seed = 1) { reseed(seed); }
    void reseed(uint64_t seed) {
        uint64_t x = seed;
        for (auto &v : s) v = splitmix64(x);
    }
    static inline uint64_t rotl(uint64_t x, int k) { return (x << k) | (x >> (64 - k)); }
    uint64_t next() {
        const uint64_t result = rotl(s[1] * 5, 7) * 9;
        const uint64_t t = s[1] << 17;
        s[2] ^= s[0];
        s[3] ^= s[1];
        s[1] ^= s[2];
        s[0] ^= s[3];
        s[2] ^= t;
        s[3] = rotl(s[3], 45);
        return result;
    }
    // uniform in [0, n), n >= 1 (modulo bias is irrelevant here)
    uint64_t below(uint64_t n) { return n <= 1 ? 0 : next() % n; }
    // uniform in [lo, hi]
    uint64_t range(uint64_t lo, uint64_t hi) { return lo + below(hi - lo + 1); }
    bool chance(uint64_t num, uint64_t den) { return below(den) < num; }
    template <class T> const T &pick(const std::vector<T> &v) { return v[below(v.size())]; }
    template <class T, size_t N> const T &pick(const T (&v)[N]) { return v[below(N)]; }
};

} // namespace sim
