// E-ALLOC for the stateless allocating APIs (C18): for one API call instance,
// every k: "the k-th allocation request issued during the call returns NULL".
// Oracle (DESIGN 3/C18): never crash / leak / double free / overrun that the
// fault introduced; the outcome is the call's failure indication or a fully
// correct result.
#include "../core/gen.h"
#include "../core/sim.h"
#include "../seams/alloc.h"
#include <cstring>
#include <sstream>

extern "C" {
#include "varintAdaptive.h"
#include "varintDict.h"
#include "varintFloat.h"
#include "varintPFOR.h"
}

namespace {
using namespace sim;

// Encoder destination: advertised size + slack, canary from the advertised
// size on (DESIGN 2.7).  An overrun in the fault-free baseline is a C03 matter
// and makes the input baseline-invalid; an overrun only under fault is ours.
struct Dst {
    uint8_t *p = nullptr;
    size_t adv = 0, total = 0;
    explicit Dst(size_t advertised) {
        adv = advertised;
        total = adv + std::max<size_t>(4096, 2 * adv);
        p = (uint8_t *)malloc(total);
        for (size_t i = 0; i < adv; i++) p[i] = (uint8_t)(0xA0 + (i * 7 & 0x1f));
        memset(p + adv, 0xCD, total - adv);
    }
    ~Dst() { free(p); }
    bool canary_ok() const {
        for (size_t i = adv; i < total; i++)
            if (p[i] != 0xCD) return false;
        return true;
    }
    Dst(const Dst &) = delete;
};

struct CallRes {
    bool failed = false;          // the API returned its failure indication
    std::vector<uint8_t> bytes;   // canonical representation of a successful result
    bool canary_ok = true;
    bool is_encoder = false;      // bytes are an encoding that may be verified by decoding
    alloc::CallInfo info;
    size_t live_after = 0;  // blocks of this run still allocated after the call
    size_t live_before = 0; // ... and before it (what earlier calls of this run left behind)
    size_t kept_before = 0; // blocks the library kept for itself from earlier runs
    std::string leaked;
    uint64_t aux = 0;             // a value with a documented conservative fallback
};

void put(std::vector<uint8_t> &b, const void *p, size_t n) {
    const uint8_t *c = (const uint8_t *)p;
    b.insert(b.end(), c, c + n);
}
void put64(std::vector<uint8_t> &b, uint64_t v) { put(b, &v, 8); }

const char *enc_name(int e) {
    static const char *n[] = {"DELTA", "FOR", "PFOR", "DICT", "BITMAP", "TAGGED", "GROUP"};
    return e >= 0 && e < 7 ? n[e] : "?";
}

class AllocStateless : public Engine {
  public:
    const char *name() const override { return "alloc.stateless"; }
    const char *property() const override { return "C18"; }
    uint64_t tag() const override { return 0x1801; }
    std::vector<std::string> droppable_args() const override { return {}; }
    std::vector<std::string> fixed_args() const override {
        return {"fail", "enc", "precision", "mode", "threshold", "err", "meta"};
    }

    Plan generate(uint64_t seed, Tier tier) override {
        Rng r(seed);
        Plan p;
        p.property = property();
        p.engine = name();
        p.seed = seed;
        static const char *kinds[] = {"dict.encode",      "dict.encoded_size",  "dict.ratio",
                                      "dict.stats",       "dict.decode",        "dict.decode_into",
                                      "pfor.protocol",    "pfor.encode",        "pfor.threshold",
                                      "float.encode",     "float.encode_auto",  "float.decode",
                                      "adaptive.encode",  "adaptive.pipeline",  "adaptive.encode_with",
                                      "adaptive.decode",  "adaptive.encode_with", "adaptive.decode",
                                      "adaptive.analyze", "pfor.protocol"};
        Op op;
        op.kind = r.pick(kinds);
        size_t n = gen_length(r, tier);
        int cls = (int)r.below(ARR_NCLASSES);
        if (op.kind.rfind("dict.", 0) == 0 && r.chance(1, 2)) cls = r.chance(1, 2) ? ARR_LOWCARD : ARR_CONSTANT;
        if (op.kind.rfind("pfor.", 0) == 0 && r.chance(1, 2)) cls = ARR_CLUSTERED;
        if (op.kind.rfind("pfor.", 0) == 0) op.set("threshold", r.chance(1, 2) ? 95 : (r.chance(1, 2) ? 90 : 99));
        if (op.kind == "adaptive.encode_with" || op.kind == "adaptive.decode") {
            int enc = (int)r.below(6);
            op.set("enc", enc);
            if (enc == VARINT_ADAPTIVE_BITMAP) cls = ARR_STRICT_INC16;
            if (enc == VARINT_ADAPTIVE_DICT && r.chance(1, 2)) cls = ARR_LOWCARD;
            op.set("meta", r.below(2));
        }
        if (op.kind == "adaptive.encode" || op.kind == "adaptive.pipeline") {
            op.set("meta", r.below(2));
            // steer towards each branch of the selection tree
            static const int steer[] = {ARR_LOWCARD, ARR_STRICT_INC16, ARR_SORTED, ARR_CLUSTERED, ARR_FULL64,
                                        ARR_DESCENDING};
            if (r.chance(2, 3)) cls = r.pick(steer);
        }
        if ((op.kind == "adaptive.analyze" || op.kind == "adaptive.encode" || op.kind == "adaptive.pipeline") &&
            r.chance(1, 25)) {
            // unsorted input above 10000 elements: the sampling branch of the unique counter
            n = 10001 + r.below(3);
            cls = r.chance(1, 2) ? ARR_LOWCARD : ARR_FULL64;
        }
        if (cls == ARR_STRICT_INC16 && n > 30000) n = 30000;
        std::vector<uint64_t> vals = gen_array(r, n, cls);
        if (op.kind.rfind("float.", 0) == 0) {
            op.set("precision", r.below(4));
            op.set("mode", r.below(3));
            op.set("err", r.below(4));
            // doubles as bit patterns: normals of mixed magnitude, specials
            for (auto &x : vals) {
                switch (r.below(10)) {
                case 0: x = 0; break;
                case 1: x = 0x8000000000000000ULL; break;
                case 2: x = 0x7ff0000000000000ULL; break;
                case 3: x = 0x7ff8000000000001ULL | (r.next() & 0xffff); break;
                case 4: x = r.next() & 0x000fffffffffffffULL; break; // subnormal
                default: {
                    uint64_t e = r.chance(1, 2) ? 1023 + r.below(20) - 10 : r.range(1, 2046);
                    x = (r.next() & 0x800fffffffffffffULL) | (e << 52);
                }
                }
            }
        }
        op.mkarr("values") = vals;
        op.sets("fail", "all");
        p.ops.push_back(op);
        return p;
    }

    // ---------------------------------------------------------------- calls
    // Fault-free helpers used to prepare inputs and to verify outputs.
    static bool dict_roundtrip(const uint8_t *buf, size_t len, const std::vector<uint64_t> &vals) {
        size_t cnt = 0;
        uint8_t *copy = (uint8_t *)malloc(len + 16);
        memcpy(copy, buf, len);
        memset(copy + len, 0, 16);
        uint64_t *out = varintDictDecode(copy, len, &cnt);
        free(copy);
        if (!out) return false;
        bool ok = cnt == vals.size() && memcmp(out, vals.data(), cnt * 8) == 0;
        alloc::release(out);
        return ok;
    }

    // Runs the operation once with "request k fails" (k = 0: fault-free).
    // `base` is the fault-free result (nullptr while computing it).
    CallRes call(const Op &op, uint64_t k, const CallRes *base) {
        CallRes res;
        const std::vector<uint64_t> empty;
        const std::vector<uint64_t> &vals = op.arr("values") ? *op.arr("values") : empty;
        size_t n = vals.size();
        const std::string &kind = op.kind;
        // exact-size heap copy of the input array
        uint64_t *in = (uint64_t *)malloc(n * 8 + 1);
        memcpy(in, vals.data(), n * 8);
        std::string note = "op=" + kind;
        if (op.has("enc")) note += std::string(" enc=") + enc_name((int)op.u("enc"));
        ctx_note(note);
        res.live_before = alloc::live_count();
        res.kept_before = alloc::kept_count();
        alloc::set_fill(alloc::Fill::Garbage, 0xfeed ^ n);

        if (kind == "dict.encode") {
            size_t adv = varintDictEncodedSize(in, n);
            Dst d(adv);
            alloc::begin_call(k);
            size_t w = varintDictEncode(d.p, in, n);
            res.info = alloc::end_call();
            res.failed = w == 0;
            res.is_encoder = true;
            if (w > d.total) w = d.total;
            put(res.bytes, d.p, w);
            res.canary_ok = d.canary_ok();
        } else if (kind == "dict.encoded_size") {
            alloc::begin_call(k);
            size_t s = varintDictEncodedSize(in, n);
            res.info = alloc::end_call();
            res.failed = s == 0;
            put64(res.bytes, s);
        } else if (kind == "dict.ratio") {
            alloc::begin_call(k);
            float f = varintDictCompressionRatio(in, n);
            res.info = alloc::end_call();
            res.failed = f == 0.0f;
            put(res.bytes, &f, sizeof f);
        } else if (kind == "dict.stats") {
            varintDictStats st;
            memset(&st, 0x5a, sizeof st);
            alloc::begin_call(k);
            int rc = varintDictGetStats(in, n, &st);
            res.info = alloc::end_call();
            res.failed = rc == -1;
            put64(res.bytes, (uint64_t)rc);
            if (rc == 0) {
                put64(res.bytes, st.uniqueCount);
                put64(res.bytes, st.totalCount);
                put64(res.bytes, st.dictBytes);
                put64(res.bytes, st.indexBytes);
                put64(res.bytes, st.totalBytes);
                put64(res.bytes, st.originalBytes);
                put(res.bytes, &st.compressionRatio, 4);
                put(res.bytes, &st.spaceReduction, 4);
            }
        } else if (kind == "dict.decode" || kind == "dict.decode_into") {
            size_t adv = varintDictEncodedSize(in, n);
            Dst d(adv);
            size_t len = varintDictEncode(d.p, in, n);
            if (len == 0 || !d.canary_ok()) {
                res.failed = true; // no valid encoding to decode: baseline-invalid
                res.canary_ok = false;
            } else {
                uint8_t *src = (uint8_t *)malloc(len);
                memcpy(src, d.p, len);
                if (kind == "dict.decode") {
                    size_t cnt = (size_t)-1;
                    alloc::begin_call(k);
                    uint64_t *out = varintDictDecode(src, len, &cnt);
                    res.info = alloc::end_call();
                    res.failed = out == nullptr;
                    if (out) {
                        put64(res.bytes, cnt);
                        if (alloc::is_live(out) && alloc::size_of(out) >= cnt * 8)
                            put(res.bytes, out, cnt * 8);
                        else
                            put64(res.bytes, 0xdeadbeef);
                        alloc::release(out);
                    }
                } else {
                    uint64_t *out = (uint64_t *)malloc(n * 8 + 1);
                    memset(out, 0xEE, n * 8);
                    alloc::begin_call(k);
                    size_t cnt = varintDictDecodeInto(src, len, out, n);
                    res.info = alloc::end_call();
                    res.failed = cnt == 0;
                    put64(res.bytes, cnt);
                    put(res.bytes, out, std::min(cnt, n) * 8);
                    free(out);
                }
                free(src);
            }
        } else if (kind == "pfor.protocol" || kind == "pfor.encode" || kind == "pfor.threshold") {
            uint32_t thr = (uint32_t)op.u("threshold", 95);
            if (kind == "pfor.threshold") {
                varintPFORMeta meta;
                memset(&meta, 0, sizeof meta);
                alloc::begin_call(k);
                varintWidth w = varintPFORComputeThreshold(in, (uint32_t)n, thr, &meta);
                res.info = alloc::end_call();
                res.failed = w == VARINT_WIDTH_INVALID;
                put64(res.bytes, w);
                put64(res.bytes, meta.min);
                put64(res.bytes, meta.exceptionMarker);
                put64(res.bytes, meta.thresholdValue);
                put64(res.bytes, meta.width);
                put64(res.bytes, meta.count);
                put64(res.bytes, meta.exceptionCount);
                put64(res.bytes, varintPFORSize(&meta));
            } else if (kind == "pfor.protocol") {
                // the documented client protocol, all of it inside the fault window
                varintPFORMeta meta;
                memset(&meta, 0, sizeof meta);
                alloc::begin_call(k);
                varintWidth w = varintPFORComputeThreshold(in, (uint32_t)n, thr, &meta);
                if (w == VARINT_WIDTH_INVALID) {
                    res.info = alloc::end_call();
                    res.failed = true;
                } else {
                    size_t adv = varintPFORSize(&meta);
                    Dst d(adv);
                    varintPFORMeta m2;
                    memset(&m2, 0, sizeof m2);
                    size_t wlen = varintPFOREncode(d.p, in, (uint32_t)n, thr, &m2);
                    res.info = alloc::end_call();
                    res.failed = wlen == 0;
                    res.is_encoder = true;
                    res.canary_ok = d.canary_ok();
                    if (wlen > d.total) wlen = d.total;
                    put(res.bytes, d.p, wlen);
                }
            } else {
                varintPFORMeta meta;
                memset(&meta, 0, sizeof meta);
                varintPFORComputeThreshold(in, (uint32_t)n, thr, &meta);
                size_t adv = varintPFORSize(&meta);
                Dst d(adv);
                varintPFORMeta m2;
                memset(&m2, 0, sizeof m2);
                alloc::begin_call(k);
                size_t wlen = varintPFOREncode(d.p, in, (uint32_t)n, thr, &m2);
                res.info = alloc::end_call();
                res.failed = wlen == 0;
                res.is_encoder = true;
                res.canary_ok = d.canary_ok();
                if (wlen > d.total) wlen = d.total;
                put(res.bytes, d.p, wlen);
            }
        } else if (kind == "float.encode" || kind == "float.encode_auto" || kind == "float.decode") {
            varintFloatPrecision prec = (varintFloatPrecision)(op.u("precision") & 3);
            varintFloatEncodingMode mode = (varintFloatEncodingMode)(op.u("mode") % 3);
            static const double errs[] = {1e-12, 1e-5, 1e-2, 0.1};
            double err = errs[op.u("err") & 3];
            const double *dv = (const double *)in;
            if (kind == "float.encode_auto") {
                // precision is selected from err; size the buffer for the widest
                prec = VARINT_FLOAT_PRECISION_FULL;
            }
            size_t adv = varintFloatMaxEncodedSize(n, prec);
            Dst d(adv);
            if (kind == "float.decode") {
                size_t len = varintFloatEncode(d.p, dv, n, prec, mode);
                if (len == 0 || !d.canary_ok()) {
                    res.failed = true;
                    res.canary_ok = false;
                } else {
                    uint8_t *src = (uint8_t *)malloc(len + 16); // float decode is not length-bounded
                    memcpy(src, d.p, len);
                    memset(src + len, 0, 16);
                    double *out = (double *)malloc(n * 8 + 1);
                    memset(out, 0xEE, n * 8);
                    alloc::begin_call(k);
                    size_t used = varintFloatDecode(src, n, out);
                    res.info = alloc::end_call();
                    res.failed = used == 0;
                    put64(res.bytes, used);
                    put(res.bytes, out, n * 8);
                    free(out);
                    free(src);
                }
            } else {
                size_t wlen;
                varintFloatPrecision sel = VARINT_FLOAT_PRECISION_FULL;
                alloc::begin_call(k);
                if (kind == "float.encode")
                    wlen = varintFloatEncode(d.p, dv, n, prec, mode);
                else
                    wlen = varintFloatEncodeAuto(d.p, dv, n, err, mode, &sel);
                res.info = alloc::end_call();
                res.failed = wlen == 0;
                res.canary_ok = d.canary_ok();
                if (wlen > d.total) wlen = d.total;
                put(res.bytes, d.p, wlen);
                if (kind == "float.encode_auto") put64(res.bytes, sel);
            }
        } else if (kind == "adaptive.analyze") {
            varintAdaptiveDataStats st;
            memset(&st, 0, sizeof st);
            alloc::begin_call(k);
            varintAdaptiveAnalyze(in, n, &st);
            varintAdaptiveEncodingType t = varintAdaptiveSelectEncoding(&st);
            res.info = alloc::end_call();
            // Analyze has no failure indication; under a fault its documented
            // fallback is a conservative unique count (= count).  Everything else
            // must equal the fault-free analysis, and the selection must be a
            // valid encoding type.
            res.failed = false;
            put64(res.bytes, st.count);
            put64(res.bytes, st.minValue);
            put64(res.bytes, st.maxValue);
            put64(res.bytes, st.range);
            put64(res.bytes, st.avgDelta);
            put64(res.bytes, st.maxDelta);
            put64(res.bytes, st.outlierCount);
            put64(res.bytes, st.isSorted);
            put64(res.bytes, st.isReverseSorted);
            put64(res.bytes, st.fitsInBitmapRange);
            put64(res.bytes, (int)t >= 0 && (int)t <= VARINT_ADAPTIVE_TAGGED);
            res.aux = st.uniqueCount;
        } else if (kind == "adaptive.encode" || kind == "adaptive.pipeline" ||
                   kind == "adaptive.encode_with") {
            size_t adv = varintAdaptiveMaxSize(n);
            Dst d(adv);
            varintAdaptiveMeta meta;
            memset(&meta, 0, sizeof meta);
            varintAdaptiveMeta *mp = op.u("meta") ? &meta : nullptr;
            size_t wlen;
            alloc::begin_call(k);
            if (kind == "adaptive.encode")
                wlen = varintAdaptiveEncode(d.p, in, n, mp);
            else if (kind == "adaptive.pipeline") {
                varintAdaptiveDataStats st;
                varintAdaptiveAnalyze(in, n, &st);
                varintAdaptiveEncodingType t = varintAdaptiveSelectEncoding(&st);
                wlen = varintAdaptiveEncodeWith(d.p, in, n, t, mp);
            } else
                wlen = varintAdaptiveEncodeWith(d.p, in, n, (varintAdaptiveEncodingType)op.u("enc"), mp);
            res.info = alloc::end_call();
            res.failed = wlen == 0;
            res.is_encoder = true;
            res.canary_ok = d.canary_ok();
            if (wlen > d.total) wlen = d.total;
            put(res.bytes, d.p, wlen);
        } else if (kind == "adaptive.decode") {
            size_t adv = varintAdaptiveMaxSize(n);
            Dst d(adv);
            size_t len = varintAdaptiveEncodeWith(d.p, in, n, (varintAdaptiveEncodingType)op.u("enc"), nullptr);
            if (len == 0 || !d.canary_ok()) {
                res.failed = true;
                res.canary_ok = false;
            } else {
                uint8_t *src = (uint8_t *)malloc(len + 16); // adaptive decode takes no input length
                memcpy(src, d.p, len);
                memset(src + len, 0, 16);
                uint64_t *out = (uint64_t *)malloc(n * 8 + 1);
                memset(out, 0xEE, n * 8);
                varintAdaptiveMeta meta;
                memset(&meta, 0, sizeof meta);
                alloc::begin_call(k);
                size_t cnt = varintAdaptiveDecode(src, out, n, op.u("meta") ? &meta : nullptr);
                res.info = alloc::end_call();
                res.failed = cnt == 0;
                put64(res.bytes, cnt);
                put(res.bytes, out, std::min(cnt, n) * 8);
                free(out);
                free(src);
            }
        } else {
            res.failed = true;
        }
        free(in);
        res.live_after = alloc::live_count();
        if (res.live_after > res.live_before) {
            std::ostringstream o;
            for (auto &kv : alloc::live()) o << " [" << kv.second.size << "B from " << kv.second.site << "]";
            res.leaked = o.str();
        }
        return res;
    }

    // does a successful encoder output decode (fault-free) to the input?
    bool verify_encoding(const Op &op, const CallRes &r) {
        const std::vector<uint64_t> &vals = *op.arr("values");
        size_t n = vals.size();
        ctx_append(" phase=verify");
        const std::string &kind = op.kind;
        bool ok = false;
        std::vector<uint8_t> buf(r.bytes);
        buf.resize(buf.size() + 64, 0); // decoders without input length get slack
        alloc::begin_call(0);
        if (kind == "dict.encode") {
            ok = dict_roundtrip(r.bytes.data(), r.bytes.size(), vals);
        } else if (kind.rfind("pfor.", 0) == 0) {
            varintPFORMeta m;
            memset(&m, 0, sizeof m);
            varintPFORReadMeta(buf.data(), &m);
            if (m.count == n) {
                std::vector<uint64_t> out(n + 1);
                varintPFORMeta m2;
                memset(&m2, 0, sizeof m2);
                size_t c = varintPFORDecode(buf.data(), out.data(), &m2);
                ok = c == n && memcmp(out.data(), vals.data(), n * 8) == 0;
                // "fully correct": every reader of the format agrees, not only the bulk decoder
                for (size_t i = 0; ok && i < n; i++) {
                    if (varintPFORGetAt(buf.data(), (uint32_t)i, &m) != vals[i]) { // m: as read from the encoding
                        ok = false;
                        ctx_append(" reader=varintPFORGetAt");
                    }
                }
            }
        } else if (kind.rfind("adaptive.", 0) == 0) {
            std::vector<uint64_t> out(n + 1);
            // only decode through paths that honour maxCount or that were produced for n values
            if (!r.bytes.empty() && r.bytes[0] <= VARINT_ADAPTIVE_TAGGED) {
                bool safe = true;
                if (r.bytes[0] == VARINT_ADAPTIVE_PFOR) {
                    varintPFORMeta m;
                    memset(&m, 0, sizeof m);
                    varintPFORReadMeta(buf.data() + 1, &m);
                    safe = m.count == n;
                }
                if (safe) {
                    size_t c = varintAdaptiveDecode(buf.data(), out.data(), n, nullptr);
                    ok = c == n && memcmp(out.data(), vals.data(), n * 8) == 0;
                }
            }
        }
        alloc::end_call();
        return ok;
    }

    Outcome execute(const Plan &plan) override {
        Outcome out;
        if (plan.ops.empty()) return out;
        const Op &op = plan.ops[0];
        if (!op.arr("values") || op.arr("values")->empty()) return out;
        alloc::reset_run();
        steps_begin(2000000000ULL);
        std::string base_key = "op=" + op.kind + (op.has("enc") ? std::string(" enc=") + enc_name((int)op.u("enc")) : "");
        // ---- baseline
        CallRes base = call(op, 0, nullptr);
        out.cases++;
        g_log.str(op.kind.c_str());
        g_log.u64(base.info.requests);
        g_log.bytes(base.bytes.data(), base.bytes.size());
        // what the fault-free call leaves allocated (a library-side cache filling up) is not a leak
        // under a fault; a call under a fault may leave at most as much
        long base_growth = (long)base.live_after - (long)base.live_before;
        if (base_growth > 0) {
            // measure the steady state: the same call again, now that caches are warm
            CallRes again = call(op, 0, nullptr);
            out.cases++;
            base_growth = std::max<long>(0, (long)again.live_after - (long)again.live_before);
            stat("baseline_keeps_blocks_for_itself");
        }
        bool base_valid = !base.failed && base.canary_ok && !base.info.bad_free;
        if (base_valid && base.is_encoder) base_valid = verify_encoding(op, base);
        if (!base_valid) {
            stat("baseline-invalid");
            out.cls = "skip";
            out.detail = "fault-free execution is not a valid reference for this input";
            out.hash = g_log.h;
            alloc::reset_run();
            steps_end();
            return out;
        }
        stat("op." + op.kind);
        uint64_t kfrom = 1, kto = 100000;
        if (op.has("fail") && !op.is_all("fail")) kfrom = kto = op.u("fail");
        for (uint64_t k = kfrom; k <= kto; k++) {
            ctx_bind(0, "fail", k);
            alloc::reset_run();
            CallRes r = call(op, k, &base);
            out.cases++;
            g_log.u64(k);
            g_log.u64(r.failed);
            g_log.bytes(r.bytes.data(), r.bytes.size());
            if (!r.info.fault_fired) break;
            stat("fault.fail-alloc.fired");
            out.nontrivial.push_back(plan.digest() ^ (k * 0x9e3779b97f4a7c15ULL));
            std::string key = base_key + " site=" + r.info.fault_site;
            auto fail = [&](const std::string &cls, const std::string &detail) {
                out.cls = cls;
                out.key = key;
                out.detail = op.kind + " with " + std::to_string(op.arr("values")->size()) + " values, request " +
                             std::to_string(k) + " (" + r.info.fault_kind + " of " + std::to_string(r.info.fault_size) +
                             " bytes at " + r.info.fault_site + ") failing: " + detail;
                out.binds.push_back({0, "fail", k});
            };
            if (r.info.bad_free) {
                fail("double-free", "free of a block that is not live at " + r.info.bad_free_site);
                break;
            }
            bool leak = (long)r.live_after - (long)r.live_before > base_growth;
            if (leak) {
                // a leak accumulates: the same call under the same fault again must leave more
                // blocks outstanding in total (a library-side pool fills once and stays that size)
                size_t total1 = r.live_after + r.kept_before;
                alloc::reset_run();
                CallRes r2 = call(op, k, &base);
                out.cases++;
                size_t total2 = r2.live_after + r2.kept_before;
                leak = (long)r2.live_after - (long)r2.live_before > base_growth && total2 > total1;
                if (!leak) stat("leak_suspicion_not_confirmed_by_repetition");
            }
            if (leak) {
                fail("leak", std::to_string(r.live_after - r.live_before) + " more block(s) allocated after the call than before it (the fault-free call leaves " +
                                 std::to_string(base_growth) + "):" + r.leaked);
                break;
            }
            if (!r.canary_ok) {
                fail("overrun-under-fault", "bytes beyond the advertised destination size were written, which "
                                            "the fault-free call does not do");
                break;
            }
            if (r.failed) {
                stat("c18.reported-failure");
                continue;
            }
            if (r.bytes == base.bytes && (r.aux == base.aux || r.aux == op.arr("values")->size())) {
                stat("c18.correct-despite-fault");
                continue;
            }
            if (r.is_encoder && verify_encoding(op, r)) {
                stat("c18.different-but-lossless");
                continue;
            }
            fail("wrong-success", "the call reported success but its result differs from the fault-free result" +
                                      std::string(r.is_encoder ? " and does not decode to the input" : ""));
            break;
        }
        out.hash = g_log.h;
        alloc::reset_run();
        steps_end();
        return out;
    }

    std::string report_json() override { return alloc::sites_json(); }
};

struct Reg {
    Reg() { register_engine(new AllocStateless()); }
} reg;
} // namespace
