// E-PIPE (DESIGN 2.6): producer (real encoder) -> medium (fault injector stub)
// -> consumer (real decoder on exact-size heap blocks).
//   pipe.input    (C14) storage faults on every decoder that is told its input size
//   pipe.capacity (C13) consumer-side capacity shortfall, every m in [0, N]
#include "../core/gen.h"
#include "../core/sim.h"
#include "../seams/alloc.h"
#include <algorithm>
#include <cstring>
#include <sstream>

extern "C" {
#include "varintAdaptive.h"
#include "varintBP128.h"
#include "varintBitmap.h"
#include "varintDict.h"
#include "varintElias.h"
#include "varintFOR.h"
#include "varintGroup.h"
#include "varintRLE.h"
#include "varintTagged.h"
}

namespace {
using namespace sim;

typedef std::vector<uint8_t> Bytes;
typedef std::vector<uint64_t> Vals;

const uint64_t DECODE_STEP_BUDGET = 50000000ULL;

const char *enc_name(int e) {
    static const char *n[] = {"DELTA", "FOR", "PFOR", "DICT", "BITMAP", "TAGGED", "GROUP"};
    return e >= 0 && e < 7 ? n[e] : "?";
}

// encoder destination with slack; returns false if the encoder overran its
// advertised size (C03 matter -> baseline-invalid, never judged here)
struct EncBuf {
    Bytes b;
    size_t adv;
    explicit EncBuf(size_t advertised) : b(advertised + std::max<size_t>(4096, 2 * advertised), 0xCD), adv(advertised) {}
    uint8_t *p() { return b.data(); }
    bool ok() const {
        for (size_t i = adv; i < b.size(); i++)
            if (b[i] != 0xCD) return false;
        return true;
    }
};

// ------------------------------------------------------------------ producers
// Each returns the valid encoding of `v` for the named codec; `bits` is the
// declared size in bits for the Elias codecs.
bool produce(const std::string &codec, const Op &op, const Vals &v, Bytes &out, size_t &bits) {
    size_t n = v.size();
    bits = 0;
    out.clear();
    if (codec == "dict") {
        if (!n) return false;
        size_t adv = varintDictEncodedSize(v.data(), n);
        EncBuf e(adv);
        size_t w = varintDictEncode(e.p(), v.data(), n);
        if (!w || !e.ok()) return false;
        out.assign(e.p(), e.p() + w);
    } else if (codec == "elias.gamma" || codec == "elias.delta") {
        if (!n) return false;
        for (auto x : v)
            if (x < 1) return false;
        bool g = codec == "elias.gamma";
        EncBuf e(g ? varintEliasGammaMaxBytes(n) : varintEliasDeltaMaxBytes(n));
        varintEliasMeta m;
        memset(&m, 0, sizeof m);
        size_t w = g ? varintEliasGammaEncodeArray(e.p(), v.data(), n, &m)
                     : varintEliasDeltaEncodeArray(e.p(), v.data(), n, &m);
        if (!w || !e.ok()) return false;
        out.assign(e.p(), e.p() + w);
        bits = m.totalBits;
    } else if (codec == "bitmap") {
        varintBitmap *vb = varintBitmapCreate();
        if (!vb) return false;
        std::string shape = op.s("shape", "array");
        if (shape == "runs") {
            varintBitmapAddRange(vb, (uint16_t)op.u("min"), (uint16_t)op.u("max"));
        } else {
            for (auto x : v) varintBitmapAdd(vb, (uint16_t)x);
            if (shape == "bitmap") {
                uint32_t stride = (uint32_t)op.u("stride", 3) | 1, cnt = (uint32_t)op.u("count", 5000);
                for (uint32_t i = 0, x = (uint32_t)op.u("start", 0); i < cnt; i++, x = (x + stride) & 0xffff)
                    varintBitmapAdd(vb, (uint16_t)x);
            }
        }
        Bytes tmp(16 + 8192 + 4 * 65536 + 2 * 70000);
        size_t w = varintBitmapEncode(vb, tmp.data());
        varintBitmapFree(vb);
        out.assign(tmp.data(), tmp.data() + w);
    } else if (codec == "rle" || codec == "rle.header") {
        if (!n) return false;
        EncBuf e(varintRLEMaxSize(n) + 9);
        size_t w = codec == "rle" ? varintRLEEncode(e.p(), v.data(), n, nullptr)
                                  : varintRLEEncodeWithHeader(e.p(), v.data(), n, nullptr);
        if (!w || !e.ok()) return false;
        out.assign(e.p(), e.p() + w);
    } else if (codec == "bp128.32" || codec == "bp128d.32") {
        if (!n) return false;
        std::vector<uint32_t> v32(n);
        for (size_t i = 0; i < n; i++) v32[i] = (uint32_t)v[i];
        EncBuf e(varintBP128MaxBytes(n) + 16);
        size_t w = codec == "bp128.32" ? varintBP128Encode32(e.p(), v32.data(), n, nullptr)
                                       : varintBP128DeltaEncode32(e.p(), v32.data(), n, nullptr);
        if (!w || !e.ok()) return false;
        out.assign(e.p(), e.p() + w);
    } else if (codec == "bp128.64" || codec == "bp128d.64") {
        if (!n) return false;
        EncBuf e(varintBP128MaxBytes(n) * 2 + 16);
        size_t w = codec == "bp128.64" ? varintBP128Encode64(e.p(), v.data(), n, nullptr)
                                       : varintBP128DeltaEncode64(e.p(), v.data(), n, nullptr);
        if (!w || !e.ok()) return false;
        out.assign(e.p(), e.p() + w);
    } else if (codec == "for") {
        if (!n) return false;
        varintFORMeta m;
        memset(&m, 0, sizeof m);
        varintFORAnalyze(v.data(), n, &m);
        EncBuf e(varintFORSize(&m));
        size_t w = varintFOREncode(e.p(), v.data(), n, &m);
        if (!w || !e.ok()) return false;
        out.assign(e.p(), e.p() + w);
    } else if (codec == "group") {
        if (!n || n > 64) return false;
        EncBuf e(varintGroupSize(v.data(), (uint8_t)n));
        size_t w = varintGroupEncode(e.p(), v.data(), (uint8_t)n);
        if (!w || !e.ok()) return false;
        out.assign(e.p(), e.p() + w);
    } else if (codec.rfind("adaptive.", 0) == 0) {
        if (!n) return false;
        int enc = -1;
        for (int i = 0; i < 6; i++)
            if (codec == std::string("adaptive.") + enc_name(i)) enc = i;
        if (enc < 0) return false;
        EncBuf e(varintAdaptiveMaxSize(n));
        size_t w = varintAdaptiveEncodeWith(e.p(), v.data(), n, (varintAdaptiveEncodingType)enc, nullptr);
        if (!w || !e.ok()) return false;
        out.assign(e.p(), e.p() + w);
    } else
        return false;
    return true;
}

// ------------------------------------------------------------------- medium
// applies one fault to `enc`; returns false if the fault cannot fire here
bool apply_fault(const Op &f, const Bytes &enc, const Bytes &enc2, uint64_t t_override, bool has_t, Bytes &out) {
    const std::string kind = f.s("kind");
    size_t len = enc.size();
    out = enc;
    uint64_t t = has_t ? t_override : f.u("t");
    if (kind == "none") return true;
    if (kind == "truncate") {
        if (t >= len) return false;
        out.resize(t);
        return true;
    }
    if (kind == "flip") {
        if (!len) return false;
        size_t by = f.u("byte") % len;
        out[by] ^= (uint8_t)(1u << (f.u("bit") & 7));
        if (f.has("byte2")) out[f.u("byte2") % len] ^= (uint8_t)(1u << (f.u("bit2") & 7));
        return true;
    }
    if (kind == "overwrite") {
        if (!len) return false;
        size_t by = f.u("byte") % len;
        if (out[by] == (uint8_t)f.u("v")) return false;
        out[by] = (uint8_t)f.u("v");
        return true;
    }
    if (kind == "torn") { // prefix of the newer encoding, suffix of the older one
        if (enc2.empty() || !len) return false;
        size_t cut = t % (len + 1);
        out.assign(enc2.begin(), enc2.begin() + (long)std::min(cut, enc2.size()));
        if (cut < len) out.insert(out.end(), enc.begin() + (long)cut, enc.end());
        return out != enc;
    }
    if (kind == "zero-tail") {
        if (t >= len) return false;
        for (size_t i = t; i < len; i++) out[i] = 0;
        return out != enc;
    }
    if (kind == "dup-chunk") {
        if (!len) return false;
        size_t a = f.u("at") % len, l = std::min<size_t>(f.u("len", 1) + 1, len - a);
        out.insert(out.begin() + (long)a, enc.begin() + (long)a, enc.begin() + (long)(a + l));
        out.resize(len); // same declared length, shifted content
        return out != enc;
    }
    if (kind == "inflate-count" || kind == "inflate-dictsize") {
        // dictionary format [dict_size][entries...][count][indices...]: splice a hostile number into a
        // length field located by parsing the valid encoding
        if (!len) return false;
        uint64_t dsz = 0;
        size_t pos = 0;
        size_t w0 = varintTaggedGet(enc.data(), (int32_t)std::min<size_t>(len, 9), &dsz);
        if (!w0) return false;
        if (kind == "inflate-count") {
            pos = w0;
            for (uint64_t i = 0; i < dsz && pos < len; i++) pos += varintTaggedGetLen(&enc[pos]);
            if (pos >= len) return false;
        }
        unsigned iw = 1;
        while (iw < 8 && dsz && ((dsz - 1) >> (8 * iw))) iw++;
        uint64_t v = f.u("v");
        uint64_t j = f.u("wrapj");
        if (j) { // smallest count whose product with the index width wraps j times, plus k
            __uint128_t big = ((__uint128_t)1 << 64) * (j % (iw + 1) ? j % (iw + 1) : 1);
            v = (uint64_t)((big + iw - 1) / iw) + f.u("k");
        }
        size_t old = varintTaggedGetLen(&enc[pos]);
        uint8_t tmp[9];
        size_t w = varintTaggedPut64(tmp, v);
        out.assign(enc.begin(), enc.begin() + (long)pos);
        out.insert(out.end(), tmp, tmp + w);
        if (pos + old < len) out.insert(out.end(), enc.begin() + (long)(pos + old), enc.end());
        if (f.u("keeplen")) out.resize(len);
        return out != enc;
    }
    if (kind == "inflate") { // splice the tagged varint of a huge number over the varint at `pos`
        if (!len) return false;
        size_t pos = f.u("pos") % len;
        size_t old = varintTaggedGetLen(&enc[pos]);
        uint8_t tmp[9];
        size_t w = varintTaggedPut64(tmp, f.u("v"));
        out.assign(enc.begin(), enc.begin() + (long)pos);
        out.insert(out.end(), tmp, tmp + w);
        if (pos + old < len) out.insert(out.end(), enc.begin() + (long)(pos + old), enc.end());
        if (f.u("keeplen")) out.resize(len);
        return out != enc;
    }
    return false;
}

struct Verdict {
    std::string cls, detail;
};

// ------------------------------------------------------------------ consumer
// Runs one length-taking decoder on an exact-size copy of `in`.
// capacity: output elements available (exact-size block).
Verdict consume_input(const std::string &entry, const Bytes &in, size_t bits, size_t capacity) {
    Verdict v;
    size_t len = in.size();
    uint8_t *src = (uint8_t *)malloc(len); // redzone starts at byte len
    if (len) memcpy(src, in.data(), len);
    alloc::reset_run();
    alloc::set_fill(alloc::Fill::Garbage, 0x14 ^ len);
    alloc::set_cap(8u * 1024 * 1024 + 64 * len);
    alloc::begin_call(0);
    steps_begin(DECODE_STEP_BUDGET);
    size_t ret = 0;
    if (entry == "dict.decode") {
        size_t cnt = 0;
        uint64_t *out = varintDictDecode(src, len, &cnt);
        if (out) {
            if (!alloc::is_live(out) || alloc::size_of(out) < cnt * 8) {
                v.cls = "count-exceeds-capacity";
                v.detail = "reports " + std::to_string(cnt) + " values in a block of " +
                           std::to_string(alloc::size_of(out)) + " bytes";
            }
            alloc::release(out);
        }
        ret = cnt;
    } else if (entry == "dict.decode_into") {
        uint64_t *out = (uint64_t *)malloc(capacity * 8);
        ret = varintDictDecodeInto(src, len, out, capacity);
        free(out);
        if (ret > capacity) {
            v.cls = "count-exceeds-capacity";
            v.detail = "returned " + std::to_string(ret) + " with capacity " + std::to_string(capacity);
        }
    } else if (entry == "elias.gamma" || entry == "elias.delta") {
        uint64_t *out = (uint64_t *)malloc(capacity * 8);
        ret = entry == "elias.gamma" ? varintEliasGammaDecodeArray(src, bits, out, capacity)
                                     : varintEliasDeltaDecodeArray(src, bits, out, capacity);
        if (ret > capacity) {
            v.cls = "count-exceeds-capacity";
            v.detail = "returned " + std::to_string(ret) + " with capacity " + std::to_string(capacity);
        } else if (bits % 8 != 0 && bits / 8 < len) {
            // bit-granular bound: the bits of the last byte beyond srcBits are not input;
            // decoding again with those bits inverted must give the same count and values
            uint8_t *src2 = (uint8_t *)malloc(len);
            memcpy(src2, src, len);
            src2[bits / 8] ^= (uint8_t)(0xffu >> (bits % 8)); // MSB-first: low bits are beyond srcBits
            uint64_t *out2 = (uint64_t *)malloc(capacity * 8);
            size_t ret2 = entry == "elias.gamma" ? varintEliasGammaDecodeArray(src2, bits, out2, capacity)
                                                 : varintEliasDeltaDecodeArray(src2, bits, out2, capacity);
            if (ret2 != ret || (ret <= capacity && memcmp(out, out2, ret * 8) != 0)) {
                v.cls = "over-read-bits";
                v.detail = "the result depends on bits of the last byte beyond the declared " + std::to_string(bits) +
                           " bits (" + std::to_string(ret) + " vs " + std::to_string(ret2) + " values)";
            }
            free(out2);
            free(src2);
        }
        free(out);
    } else if (entry == "bitmap.decode") {
        varintBitmap *vb = varintBitmapDecode(src, len);
        if (vb) varintBitmapFree(vb); // leak hygiene only; later use is outside the statement
    } else if (entry == "rle.runcount") {
        ret = varintRLEGetRunCount(src, len);
    } else if (entry == "bp128.getcount") {
        ret = varintBP128GetCount(src, len);
    }
    steps_end();
    alloc::CallInfo info = alloc::end_call();
    if (v.cls.empty() && info.cap_hit) {
        v.cls = "unbounded-allocation";
        v.detail = "requested " + std::to_string(info.cap_size) + " bytes at " + info.cap_site + " for a " +
                   std::to_string(len) + "-byte input";
    }
    g_log.u64(ret);
    free(src);
    alloc::reset_run();
    return v;
}

// ============================================================== pipe.input
class PipeInput : public Engine {
  public:
    const char *name() const override { return "pipe.input"; }
    const char *property() const override { return "C14"; }
    uint64_t tag() const override { return 0x1401; }
    std::vector<std::string> fixed_args() const override {
        return {"t", "kind", "entry", "shape", "bit", "bit2", "keeplen", "wrapj"};
    }

    static std::string codec_of(const std::string &entry) {
        if (entry == "dict.decode" || entry == "dict.decode_into") return "dict";
        if (entry == "elias.gamma" || entry == "elias.delta") return entry;
        if (entry == "bitmap.decode") return "bitmap";
        if (entry == "rle.runcount") return "rle";
        return "";
    }

    Plan generate(uint64_t seed, Tier tier) override {
        Rng r(seed);
        Plan p;
        p.property = property();
        p.engine = name();
        p.seed = seed;
        static const char *entries[] = {"dict.decode", "dict.decode_into", "elias.gamma", "elias.delta",
                                        "bitmap.decode", "rle.runcount", "bp128.getcount", "tagged.get",
                                        "dict.decode", "dict.decode_into", "bitmap.decode", "elias.delta"};
        std::string entry = r.pick(entries);
        Op prod;
        prod.kind = "produce";
        prod.sets("entry", entry);
        if (entry == "tagged.get") {
            prod.kind = "tagged.grid";
            prod.set("payload", r.next() & 0xffffffff);
            p.ops.push_back(prod);
            return p;
        }
        size_t n = gen_length(r, tier, 120);
        if (r.chance(1, 60)) n = r.pick(std::vector<size_t>{700, 1000, 4097, 5000}); // beyond the usual sizes
        int cls = (int)r.below(ARR_NCLASSES);
        if (entry.rfind("dict", 0) == 0 && r.chance(2, 3)) cls = r.chance(1, 2) ? ARR_LOWCARD : ARR_CONSTANT;
        if (entry.rfind("dict", 0) == 0 && r.chance(1, 6)) {
            n = r.range(257, 600); // more than 256 dictionary entries: 2-byte indices
            cls = r.chance(1, 2) ? ARR_FULL64 : ARR_SORTED;
        }
        if (entry.rfind("dict", 0) == 0 && r.chance(1, tier == Tier::Thorough ? 60 : 200)) {
            n = 65537 + r.below(400); // more than 65536 dictionary entries: 3-byte indices
            cls = ARR_FULL64;
        }
        if (entry.rfind("elias", 0) == 0) cls = r.chance(1, 2) ? ARR_SMALL : (r.chance(1, 2) ? ARR_ZERORUNS : ARR_FULL64);
        if (entry == "rle.runcount" && r.chance(2, 3)) cls = ARR_LOWCARD;
        if (entry == "bp128.getcount") {
            prod.sets("codec", r.chance(1, 2) ? "bp128.32" : "bp128.64");
        }
        if (entry == "bitmap.decode") {
            cls = ARR_STRICT_INC16;
            static const char *shapes[] = {"array", "array", "bitmap", "runs"};
            std::string shape = r.pick(shapes);
            prod.sets("shape", shape);
            if (shape == "runs") {
                uint32_t mn = (uint32_t)r.below(60000);
                prod.set("min", mn);
                prod.set("max", std::min<uint32_t>(65535, mn + 4097 + (uint32_t)r.below(1000)));
                n = 1;
            } else if (shape == "bitmap") {
                prod.set("stride", r.below(64) * 2 + 1);
                prod.set("count", 4097 + r.below(600));
                prod.set("start", r.below(65536));
                n = r.range(1, 20);
            }
        }
        Vals vals = gen_array(r, n, cls);
        if (entry.rfind("elias", 0) == 0)
            for (auto &x : vals)
                if (x == 0) x = 1;
        prod.mkarr("values") = vals;
        if (r.chance(1, 3)) { // an older encoding for torn rewrites
            Vals v2 = gen_array(r, gen_length(r, tier, 120), cls);
            if (entry.rfind("elias", 0) == 0)
                for (auto &x : v2)
                    if (x == 0) x = 1;
            prod.mkarr("values2") = v2;
        }
        p.ops.push_back(prod);
        // faults: one full truncation enumeration, then seeded corruptions
        {
            Op f;
            f.kind = "fault";
            f.sets("kind", "truncate");
            f.sets("t", "all");
            p.ops.push_back(f);
        }
        size_t nf = r.range(4, 14);
        static const uint8_t boundary[] = {0x00, 0x01, 0x02, 0x03, 0x7f, 0x80, 0xf0, 0xf1, 0xf8,
                                           0xf9, 0xfa, 0xfb, 0xfc, 0xfd, 0xfe, 0xff, 0x40, 0x10};
        static const uint64_t huge[] = {0xffffffffULL,        0x100000000ULL,        0xffffffffffffffffULL,
                                        0x7fffffffffffffffULL, 0x1fffffffffffffffULL, 1048576,
                                        1048577,               0x2000000000000000ULL, 65536,
                                        0x0fffffffffffffffULL, 0x8000000000000000ULL, 4294967296ULL * 2};
        for (size_t i = 0; i < nf; i++) {
            Op f;
            f.kind = "fault";
            switch (r.below(9)) {
            case 0:
            case 1:
                f.sets("kind", "flip");
                f.set("byte", r.chance(1, 2) ? r.below(12) : r.below(4096));
                f.set("bit", r.below(8));
                if (r.chance(1, 3)) {
                    f.set("byte2", r.below(4096));
                    f.set("bit2", r.below(8));
                }
                break;
            case 2:
            case 3:
                f.sets("kind", "overwrite");
                f.set("byte", r.chance(2, 3) ? r.below(12) : r.below(4096));
                f.set("v", r.pick(boundary));
                break;
            case 4:
                f.sets("kind", "torn");
                f.set("t", r.below(4096));
                break;
            case 5:
                f.sets("kind", "zero-tail");
                f.set("t", r.below(64));
                break;
            case 6:
                f.sets("kind", "dup-chunk");
                f.set("at", r.below(4096));
                f.set("len", r.below(9));
                break;
            default:
                f.sets("kind", "inflate");
                f.set("pos", r.chance(2, 3) ? 0 : r.below(4096));
                f.set("v", r.pick(huge));
                f.set("keeplen", r.below(2));
                break;
            }
            if (entry == "dict.decode_into" || entry.rfind("elias", 0) == 0)
                f.set("cap", r.chance(1, 2) ? vals.size() : r.below(vals.size() + 2));
            p.ops.push_back(f);
        }
        if (entry.rfind("dict", 0) == 0) { // hostile length fields, located by structure
            size_t ns = r.range(2, 6);
            for (size_t i = 0; i < ns; i++) {
                Op f;
                f.kind = "fault";
                f.sets("kind", r.chance(2, 3) ? "inflate-count" : "inflate-dictsize");
                if (r.chance(1, 2)) {
                    f.set("wrapj", r.range(1, 8));
                    f.set("k", r.chance(1, 2) ? r.below(4) : r.below(vals.size() * 2 + 2));
                } else
                    f.set("v", r.chance(1, 2) ? r.pick(huge) : (r.chance(1, 3) ? r.below(3) : vals.size() + r.range(1, 3)));
                f.set("keeplen", r.below(2));
                if (entry == "dict.decode_into") f.set("cap", r.chance(1, 2) ? vals.size() : r.below(vals.size() + 2));
                p.ops.push_back(f);
            }
        }
        if (entry == "bitmap.decode" && r.chance(1, 6)) {
            // a run table whose announced size sits on the deserialiser's own limits, with a payload of
            // exactly (or almost) the announced size
            Op g;
            g.kind = "runtable";
            static const uint64_t counts[] = {0, 1, 2, 4096, 65535, 65536, 65537, 16384};
            uint64_t nr = r.pick(counts);
            g.set("runs", nr);
            g.set("card", r.chance(1, 2) ? nr : r.pick(counts));
            g.set("short", r.chance(1, 3) ? r.range(1, 5) : 0); // bytes missing from the payload
            g.set("fillseed", r.next() & 0xffff);
            if (r.chance(1, 3)) {
                // the same for an ARRAY container: cardinalities the library itself never serialises
                static const uint64_t cards[] = {0, 1, 4095, 4096, 4097, 4098, 6000, 8192, 8193, 32768, 65535, 65536, 65537};
                g.set("ctype", 0);
                g.set("card", r.pick(cards));
                g.set("runs", 0);
            }
            p.ops.push_back(g);
        }
        // hostile bytes from scratch
        size_t ng = r.range(1, 4);
        for (size_t i = 0; i < ng; i++) {
            Op g;
            g.kind = "garbage";
            size_t gl = r.chance(1, 2) ? r.below(12) : (r.chance(1, 8) ? r.below(4097) : r.below(200));
            auto &b = g.mkarr("bytes");
            bool tiny = r.chance(1, 3); // strings of very small integers: empty tables, zero counts, zero widths
            for (size_t j = 0; j < gl; j++) {
                if (tiny)
                    b.push_back(r.below(r.chance(1, 2) ? 2 : 4));
                else if (j < 6 && r.chance(1, 2))
                    b.push_back(r.pick(boundary));
                else
                    b.push_back(r.below(256));
            }
            if (entry == "bitmap.decode" && gl > 0 && r.chance(2, 3)) b[0] = r.below(4); // valid-looking type byte
            g.set("cap", r.below(300));
            g.set("bits", r.chance(1, 2) ? gl * 8 : r.below(gl * 8 + 1));
            p.ops.push_back(g);
        }
        return p;
    }

    Outcome execute(const Plan &plan) override {
        Outcome out;
        if (plan.ops.empty()) return out;
        const Op &prod = plan.ops[0];
        if (prod.kind == "tagged.grid") return tagged_grid(plan);
        std::string entry = prod.s("entry");
        std::string codec = prod.has("codec") ? prod.s("codec") : codec_of(entry);
        const Vals empty;
        const Vals &vals = prod.arr("values") ? *prod.arr("values") : empty;
        Bytes enc, enc2;
        size_t bits = 0, bits2 = 0;
        bool have = prod.kind == "produce" && produce(codec, prod, vals, enc, bits);
        if (have && prod.arr("values2")) {
            if (!produce(codec, prod, *prod.arr("values2"), enc2, bits2)) enc2.clear();
        }
        g_log.str(entry.c_str());
        g_log.bytes(enc.data(), enc.size());
        size_t N = vals.size();
        for (size_t oi = 1; oi < plan.ops.size(); oi++) {
            const Op &f = plan.ops[oi];
            Bytes in;
            if (f.kind == "garbage") {
                const Vals *b = f.arr("bytes");
                if (b)
                    for (auto x : *b) in.push_back((uint8_t)x);
                size_t cap = (size_t)f.u("cap", 16);
                size_t gbits = std::min<size_t>(f.u("bits", in.size() * 8), in.size() * 8);
                if (!one_case(entry, "garbage", in, gbits, cap, oi, out)) return finish(out);
                continue;
            }
            if (f.kind == "runtable" && f.has("ctype") && f.u("ctype") == 0) {
                uint32_t card = (uint32_t)f.u("card");
                size_t payload = (size_t)std::min<uint64_t>(card, 70000) * 2;
                size_t cut = std::min<size_t>(f.u("short"), payload);
                in.assign(5 + payload - cut, 0);
                in[0] = 0; // ARRAY
                memcpy(&in[1], &card, 4);
                Rng fr(f.u("fillseed") + 9);
                uint32_t v = 0;
                for (size_t q = 0; q + 2 <= payload - cut; q += 2) { // ascending values
                    uint16_t v16 = (uint16_t)v;
                    memcpy(&in[5 + q], &v16, 2);
                    v += 1 + (uint32_t)fr.below(payload > 60000 ? 1 : 3);
                }
                if (!one_case(entry, "arraytable", in, 0, 0, oi, out)) return finish(out);
                continue;
            }
            if (f.kind == "runtable") {
                uint64_t nr = f.u("runs");
                uint32_t card = (uint32_t)f.u("card"), nr32 = (uint32_t)nr;
                size_t payload = (size_t)nr * 4;
                size_t cut = std::min<size_t>(f.u("short"), payload);
                in.assign(9 + payload - cut, 0);
                in[0] = 2; // RUNS
                memcpy(&in[1], &card, 4);
                memcpy(&in[5], &nr32, 4);
                Rng fr(f.u("fillseed") + 7);
                uint32_t start = 0;
                for (size_t q = 0; q + 4 <= payload - cut; q += 4) { // ascending runs of small lengths
                    uint16_t st16 = (uint16_t)start, ln = (uint16_t)fr.range(0, 2);
                    memcpy(&in[9 + q], &st16, 2);
                    memcpy(&in[9 + q + 2], &ln, 2);
                    start += 1 + (uint32_t)fr.below(2);
                }
                if (!one_case(entry, "runtable", in, 0, 0, oi, out)) return finish(out);
                continue;
            }
            if (f.kind != "fault" || !have) continue;
            std::string kind = f.s("kind");
            size_t cap = (size_t)f.u("cap", N);
            if (kind == "truncate" && f.is_all("t")) {
                size_t limit = enc.size();
                // every truncation point for encodings up to 512 bytes, a boundary-biased sample above
                std::vector<size_t> ts;
                if (limit <= 512)
                    for (size_t t = 0; t < limit; t++) ts.push_back(t);
                else {
                    for (size_t t = 0; t < 128; t++) ts.push_back(t);
                    for (size_t t = limit - 128; t < limit; t++) ts.push_back(t);
                    for (size_t t = 128; t < limit - 128; t += std::max<size_t>(1, (limit - 256) / 256)) ts.push_back(t);
                }
                for (size_t t : ts) {
                    ctx_bind(oi, "t", t);
                    if (!apply_fault(f, enc, enc2, t, true, in)) continue;
                    size_t b = codec.rfind("elias", 0) == 0 ? std::min(bits, t * 8) : 0;
                    if (!one_case(entry, kind, in, b, cap, oi, out)) {
                        out.binds.push_back({oi, "t", t});
                        return finish(out);
                    }
                }
                continue;
            }
            if (!apply_fault(f, enc, enc2, 0, false, in)) continue;
            size_t b = codec.rfind("elias", 0) == 0 ? std::min(bits, in.size() * 8) : 0;
            if (kind == "torn" && codec.rfind("elias", 0) == 0) b = std::min(std::max(bits, bits2), in.size() * 8);
            if (!one_case(entry, kind, in, b, cap, oi, out)) return finish(out);
        }
        return finish(out);
    }

    Outcome finish(Outcome &out) {
        out.hash = g_log.h;
        return out;
    }

    // returns false on violation (out filled)
    bool one_case(const std::string &entry, const std::string &kind, const Bytes &in, size_t bits, size_t cap,
                  size_t oi, Outcome &out) {
        std::string key = "entry=" + entry;
        ctx_note(key);
        out.cases++;
        stat("fault." + kind + ".fired");
        stat("entry." + entry);
        uint64_t d = fnv1a(in.data(), in.size(), fnv1a(entry.data(), entry.size()) ^ cap ^ (bits << 20));
        out.nontrivial.push_back(d);
        Verdict v = consume_input(entry, in, bits, cap);
        if (!v.cls.empty()) {
            out.cls = v.cls;
            out.key = key;
            out.detail = entry + " on " + std::to_string(in.size()) + " input bytes (fault " + kind + ", op " +
                         std::to_string(oi + 1) + "): " + v.detail;
            return false;
        }
        return true;
    }

    // varintTaggedGet(z, n): the whole (first byte, n) grid
    Outcome tagged_grid(const Plan &plan) {
        Outcome out;
        uint64_t payload = plan.ops[0].u("payload");
        uint64_t only_first = plan.ops[0].u("first", 256), only_n = plan.ops[0].u("n", 99);
        for (unsigned first = 0; first < 256; first++) {
            if (only_first < 256 && first != only_first) continue;
            unsigned announced = first <= 240 ? 1 : first <= 248 ? 2 : first - 246;
            for (unsigned n = 0; n <= 9; n++) {
                if (only_n <= 9 && n != only_n) continue;
                std::string key = "entry=tagged.get";
                ctx_note(key);
                ctx_bind(0, "first", first);
                ctx_bind(0, "n", n);
                uint8_t *z = (uint8_t *)malloc(n);
                uint64_t s = payload ^ (first * 131 + n);
                for (unsigned i = 0; i < n; i++) z[i] = (uint8_t)(splitmix64(s) >> 32);
                if (n) z[0] = (uint8_t)first;
                uint64_t result = 0x5555555555555555ULL;
                steps_begin(DECODE_STEP_BUDGET);
                varintWidth w = varintTaggedGet(n ? z : z, (int32_t)n, &result);
                steps_end();
                free(z);
                out.cases++;
                stat("entry.tagged.get");
                if (n < announced) stat("fault.truncate.fired");
                out.nontrivial.push_back(0x7a66ed00 + first * 16 + n);
                g_log.u64(w);
                bool bad = false;
                std::string why;
                if (n == 0 || n < announced) {
                    if (w != 0) {
                        bad = true;
                        why = "cut short of its announced length " + std::to_string(announced) + " (n=" +
                              std::to_string(n) + ") but reported length " + std::to_string(w);
                    }
                } else if (w != announced) {
                    bad = true;
                    why = "complete varint of length " + std::to_string(announced) + " with n=" + std::to_string(n) +
                          " reported length " + std::to_string(w);
                }
                if (bad) {
                    out.cls = "wrong-length";
                    out.key = key;
                    out.detail = "varintTaggedGet first byte " + std::to_string(first) + ": " + why;
                    out.binds.push_back({0, "first", first});
                    out.binds.push_back({0, "n", n});
                    out.hash = g_log.h;
                    return out;
                }
            }
        }
        out.hash = g_log.h;
        return out;
    }
};

// =========================================================== pipe.capacity
class PipeCapacity : public Engine {
  public:
    const char *name() const override { return "pipe.capacity"; }
    const char *property() const override { return "C13"; }
    uint64_t tag() const override { return 0x1301; }
    std::vector<std::string> fixed_args() const override { return {"m", "decoder", "start"}; }

    Plan generate(uint64_t seed, Tier tier) override {
        Rng r(seed);
        Plan p;
        p.property = property();
        p.engine = name();
        p.seed = seed;
        static const char *decs[] = {"for.decode",     "for.batch",      "for.block",       "group.decode",
                                     "dict.decode_into", "rle.decode",   "rle.decode_header", "elias.gamma",
                                     "elias.delta",    "bp128.32",       "bp128.64",        "bp128d.32",
                                     "bp128d.64",      "adaptive.DELTA", "adaptive.FOR",    "adaptive.PFOR",
                                     "adaptive.DICT",  "adaptive.BITMAP", "adaptive.TAGGED"};
        Op op;
        op.kind = "produce";
        std::string d = r.pick(decs);
        op.sets("decoder", d);
        size_t n = gen_length(r, tier);
        if (r.chance(1, 40)) n = r.pick(std::vector<size_t>{385, 700, 1025, 1100, 2049, 4097, 5000, 9000}); // beyond the usual sizes: threshold-gated bulk paths
        int cls = (int)r.below(ARR_NCLASSES);
        if (d == "group.decode") n = r.range(1, 64);
        if (d.rfind("elias", 0) == 0) cls = r.chance(1, 2) ? ARR_SMALL : (r.chance(1, 2) ? ARR_ZERORUNS : ARR_FULL64);
        if (d.rfind("bp128", 0) == 0 && r.chance(1, 3)) cls = ARR_ZERORUNS;
        if (d.rfind("rle", 0) == 0 && r.chance(1, 3)) cls = ARR_ZERORUNS;
        if (n >= 1000 && (d.rfind("rle", 0) == 0 || d.rfind("bp128", 0) == 0 || d == "adaptive.DELTA") && r.chance(2, 3))
            cls = r.chance(1, 2) ? ARR_LONGRUNS : ARR_ZERORUNS;
        if (d.rfind("bp128d", 0) == 0) cls = r.chance(1, 2) ? ARR_SORTED : ARR_STRICT_INC16;
        if (d == "adaptive.BITMAP") cls = ARR_STRICT_INC16;
        if ((d == "adaptive.DICT" || d == "dict.decode_into" || d.rfind("rle", 0) == 0) && r.chance(1, 2))
            cls = ARR_LOWCARD;
        if (d == "adaptive.PFOR" && r.chance(1, 2)) cls = ARR_CLUSTERED;
        Vals v = gen_array(r, n, cls);
        if (d.rfind("elias", 0) == 0)
            for (auto &x : v)
                if (x == 0) x = 1;
        if (d == "bp128.32" || d == "bp128d.32")
            for (auto &x : v) x &= 0xffffffffULL;
        if (d == "bp128d.32") std::sort(v.begin(), v.end());
        if (d == "bp128d.64") {
            if (r.chance(1, 3)) {
                // one delta as wide as the type: a single gap of 2^63 or more inside a block
                if (n < 130 && r.chance(2, 3)) n = r.range(130, 400);
                v = gen_array(r, n, ARR_BIGSTEP);
            } else {
                for (auto &x : v) x >>= 1;
                std::sort(v.begin(), v.end());
            }
        }
        op.mkarr("values") = v;
        p.ops.push_back(op);
        Op c;
        c.kind = "capacity";
        c.sets("m", "all");
        p.ops.push_back(c);
        return p;
    }

    static std::string codec_of(const std::string &d) {
        if (d.rfind("for.", 0) == 0) return "for";
        if (d == "group.decode") return "group";
        if (d == "dict.decode_into") return "dict";
        if (d == "rle.decode") return "rle";
        if (d == "rle.decode_header") return "rle.header";
        return d; // elias.*, bp128*, adaptive.*
    }

    struct DecRes {
        size_t count = 0;       // elements the decoder claims to have produced
        bool reported_failure = false;
        Vals out;               // first min(count, m) elements
    };

    // One decode with capacity m (and block start for for.block)
    DecRes decode(const std::string &d, const Bytes &enc, size_t bits, size_t m, size_t start) {
        DecRes res;
        // valid encoding plus slack: input over-reads of *valid* data are not C13's subject
        uint8_t *src = (uint8_t *)calloc(enc.size() + 64, 1);
        memcpy(src, enc.data(), enc.size());
        bool is32 = d == "bp128.32" || d == "bp128d.32";
        size_t esz = is32 ? 4 : 8;
        uint8_t *out = (uint8_t *)malloc(m * esz); // exact size: the redzone starts at element m
        memset(out, 0xEE, m * esz);
        alloc::reset_run();
        alloc::begin_call(0);
        steps_begin(DECODE_STEP_BUDGET);
        size_t r = 0;
        uint64_t *o64 = (uint64_t *)out;
        if (d == "for.decode") r = varintFORDecode(src, o64, m);
        else if (d == "for.batch") r = varintFORBatchDecode(src, o64, m);
        else if (d == "for.block") r = varintFORDecodeBlock(src, o64, start, m);
        else if (d == "group.decode") {
            uint8_t fc = 0;
            size_t used = varintGroupDecode(src, o64, &fc, m);
            r = used ? fc : 0;
        } else if (d == "dict.decode_into") r = varintDictDecodeInto(src, enc.size(), o64, m);
        else if (d == "rle.decode") r = varintRLEDecode(src, o64, m);
        else if (d == "rle.decode_header") r = varintRLEDecodeWithHeader(src, o64, m);
        else if (d == "elias.gamma") r = varintEliasGammaDecodeArray(src, bits, o64, m);
        else if (d == "elias.delta") r = varintEliasDeltaDecodeArray(src, bits, o64, m);
        else if (d == "bp128.32") r = varintBP128Decode32(src, (uint32_t *)out, m);
        else if (d == "bp128.64") r = varintBP128Decode64(src, o64, m);
        else if (d == "bp128d.32") r = varintBP128DeltaDecode32(src, (uint32_t *)out, m);
        else if (d == "bp128d.64") r = varintBP128DeltaDecode64(src, o64, m);
        else if (d.rfind("adaptive.", 0) == 0) r = varintAdaptiveDecode(src, o64, m, nullptr);
        steps_end();
        alloc::end_call();
        res.count = r;
        res.reported_failure = r == 0;
        size_t take = std::min(r, m);
        for (size_t i = 0; i < take; i++) res.out.push_back(is32 ? ((uint32_t *)out)[i] : o64[i]);
        free(out);
        free(src);
        alloc::reset_run();
        return res;
    }

    Outcome execute(const Plan &plan) override {
        Outcome out;
        if (plan.ops.size() < 2) return out;
        const Op &prod = plan.ops[0];
        const Op &cap = plan.ops[1];
        if (!prod.arr("values")) return out;
        const Vals &v = *prod.arr("values");
        std::string d = prod.s("decoder");
        Bytes enc;
        size_t bits = 0;
        size_t N = v.size();
        g_log.str(d.c_str());
        if (!produce(codec_of(d), prod, v, enc, bits)) {
            stat("baseline-invalid");
            out.cls = "skip";
            out.detail = "no valid encoding for this input";
            return out;
        }
        // baseline: full capacity must reproduce the input, else this input is a C02/C06 matter
        {
            ctx_note("decoder=" + d + " baseline");
            DecRes b = decode(d, enc, bits, N, 0);
            out.cases++;
            if (b.count != N || b.out != v) {
                stat("baseline-invalid");
                out.cls = "skip";
                out.detail = "full-capacity decode does not reproduce the input";
                out.hash = g_log.h;
                return out;
            }
        }
        std::vector<std::pair<size_t, size_t>> grid; // (m, start)
        bool block = d == "for.block";
        if (cap.is_all("m")) {
            std::vector<size_t> ms;
            if (N <= 300)
                for (size_t m = 0; m <= N; m++) ms.push_back(m);
            else {
                ms = {0, 1, N - 1, N};
                for (size_t m = 128; m < N; m += 128) {
                    ms.push_back(m - 1);
                    ms.push_back(m);
                    ms.push_back(m + 1);
                }
                for (size_t m : {4095, 4096, 4097})
                    if (m <= N) ms.push_back(m);
                uint64_t s = plan.seed;
                for (int i = 0; i < 64; i++) ms.push_back(splitmix64(s) % (N + 1));
            }
            if (!block)
                for (size_t m : ms) grid.push_back({m, 0});
            else {
                for (size_t st = 0; st <= N; st += (N > 64 ? 1 + N / 64 : 1)) {
                    size_t rest = N - st;
                    for (size_t m : {(size_t)0, (size_t)1, (size_t)7, rest ? rest - 1 : 0, rest, rest + 1, N})
                        grid.push_back({m, st});
                }
            }
        } else
            grid.push_back({(size_t)cap.u("m"), (size_t)prod.u("start", cap.u("start"))});
        std::string key = "decoder=" + d;
        for (auto &g : grid) {
            size_t m = g.first, st = g.second;
            ctx_note(key);
            ctx_bind(1, "m", m);
            if (block) ctx_bind(1, "start", st);
            DecRes r = decode(d, enc, bits, m, st);
            out.cases++;
            g_log.u64(r.count);
            size_t avail = block ? (st < N ? N - st : 0) : N;
            if (m < avail) {
                stat("fault.capacity.fired");
                out.nontrivial.push_back(fnv1a(enc.data(), enc.size(), fnv1a(d.data(), d.size())) ^ (m * 0x9e3779b97f4a7c15ULL) ^ (st << 40));
            }
            stat("decoder." + d);
            auto fail = [&](const std::string &cls, const std::string &detail) {
                out.cls = cls;
                out.key = key;
                out.detail = d + " on a valid encoding of " + std::to_string(N) + " values with capacity " +
                             std::to_string(m) + (block ? " at start " + std::to_string(st) : "") + ": " + detail;
                out.binds.push_back({1, "m", m});
                if (block) out.binds.push_back({1, "start", st});
            };
            if (r.count > m) {
                fail("count-exceeds-capacity", "returned " + std::to_string(r.count));
                break;
            }
            bool prefix_ok = true;
            for (size_t i = 0; i < r.out.size(); i++)
                if (st + i >= N || r.out[i] != v[st + i]) prefix_ok = false;
            if (!prefix_ok) {
                fail("wrong-prefix", "returned " + std::to_string(r.count) + " values that are not a prefix of the "
                                                                             "encoded sequence");
                break;
            }
            if (r.reported_failure) stat("c13.reported-failure"); else stat("c13.prefix");
        }
        out.hash = g_log.h;
        return out;
    }
};

struct Reg {
    Reg() {
        register_engine(new PipeInput());
        register_engine(new PipeCapacity());
    }
} reg;
} // namespace
