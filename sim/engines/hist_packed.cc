// E-HIST for packed bit arrays (C09): operation histories against a vector
// model, a whole-storage image oracle (guards and spare bits included) and the
// E-TRACE footprint monitor ("accesses only the slots that element occupies").
// Runs in the `tsi` build: the access hooks supply the footprint; storage is
// harness-owned, so guard regions replace ASan redzones.
#include "../core/gen.h"
#include "../core/sim.h"
#include "../seams/fiber.h"
#include "../shims/shim_api.h"
#include <algorithm>
#include <cstring>
#include <numeric>
#include <sstream>

namespace {
using namespace sim;

const size_t GUARD = 64;

struct Store {
    std::vector<uint8_t> mem; // GUARD | slots | GUARD
    size_t bytes = 0;         // slot area size
    uint8_t *base() { return mem.data() + GUARD; }
};

// independent reference: the storage is one little-endian bit stream
uint64_t ref_get(const uint8_t *b, size_t i, int bits) {
    uint64_t v = 0;
    size_t pos = i * (size_t)bits;
    for (int k = 0; k < bits; k++, pos++)
        if (b[pos >> 3] & (1u << (pos & 7))) v |= 1ULL << k;
    return v;
}
void ref_set(uint8_t *b, size_t i, int bits, uint64_t v) {
    size_t pos = i * (size_t)bits;
    for (int k = 0; k < bits; k++, pos++) {
        if (v & (1ULL << k))
            b[pos >> 3] |= (uint8_t)(1u << (pos & 7));
        else
            b[pos >> 3] &= (uint8_t)~(1u << (pos & 7));
    }
}

class PackedHist : public Engine {
  public:
    const char *name() const override { return "hist.packed"; }
    const char *property() const override { return "C09"; }
    uint64_t tag() const override { return 0x0901; }
    std::vector<std::string> fixed_args() const override { return {}; }

    static size_t period_elems(const shim_packed_cfg &c) {
        size_t sb = (size_t)c.slot_bytes * 8;
        return std::lcm((size_t)c.bits, sb) / (size_t)c.bits;
    }

    Plan generate(uint64_t seed, Tier tier) override {
        Rng r(seed);
        Plan p;
        p.property = property();
        p.engine = name();
        p.seed = seed;
        int cfg = (int)r.below((uint64_t)shim_packed_ncfgs);
        const shim_packed_cfg &c = shim_packed_cfgs[cfg];
        uint64_t maxv = c.bits >= 64 ? ~0ULL : ((1ULL << c.bits) - 1);
        size_t cap = period_elems(c) + r.below(9);
        if (cap < 4) cap = 4;
        if (cap > 96) cap = 96;
        static const char *modes[] = {"cells", "sorted", "positional", "sorted", "cells"};
        std::string mode = r.pick(modes);
        if (r.chance(1, 40)) { // long arrays: offsets beyond 255 / 65535, many slot periods
            static const size_t big[] = {300, 1000, 3700, 66000, 70000};
            cap = r.pick(big);
            if (c.max_elements && cap > (size_t)c.max_elements) cap = (size_t)c.max_elements;
            if (mode != "cells" && cap > 1000) mode = "cells";
        }
        p.set_knob("cfg", std::to_string(cfg));
        p.set_knob("cfgname", c.name);
        p.set_knob("cap", std::to_string(cap));
        p.set_knob("mode", mode);
        p.set_knob("fill", std::to_string(r.next() & 0xffffffff));
        auto val = [&]() -> uint64_t {
            switch (r.below(6)) {
            case 0: return 0;
            case 1: return maxv;
            case 2: return maxv >> 1;
            case 3: return r.below(std::min<uint64_t>(maxv, 15) + 1);
            default: return r.next() & maxv;
            }
        };
        size_t nops = r.range(3, tier == Tier::Thorough ? 80 : 40);
        size_t len = mode == "cells" ? cap : 0;
        if (c.max_elements && r.chance(2, 3)) {
            // narrow length type: the interesting arrays are longer than half of its range
            cap = c.max_elements == 250 ? (size_t)r.range(130, 250) : (r.chance(1, 2) ? (size_t)r.range(33000, 40000) : (size_t)r.range(100, 400));
            if (c.max_elements == 3700) cap = (size_t)r.range(100, 3700);
            p.set_knob("cap", std::to_string(cap));
            if (mode == "cells") len = cap;
        }
        if (mode != "cells" && r.chance(1, 2)) {
            Op pf;
            pf.kind = "prefill"; // start from a sorted array of n elements
            size_t n = r.chance(1, 2) ? cap - 1 - r.below(std::min<size_t>(cap - 1, 4)) : r.below(cap);
            pf.set("n", n);
            pf.set("seed", r.next() & 0xffffff);
            pf.set("dups", r.below(3));
            p.ops.push_back(pf);
            len = n;
        }
        for (size_t i = 0; i < nops; i++) {
            Op op;
            if (mode == "cells") {
                size_t idx = r.chance(1, 4) ? (r.chance(1, 2) ? 0 : cap - 1) : r.below(cap);
                if (cap > 256 && r.chance(1, 3)) { // around the powers of two of the offset
                    static const size_t edges[] = {255, 256, 257, 65535, 65536, 65537};
                    size_t e = r.pick(edges);
                    if (e < cap) idx = e;
                }
                switch (r.below(8)) {
                case 0:
                case 1:
                case 2:
                    op.kind = "set";
                    op.set("i", idx);
                    op.set("v", val());
                    break;
                case 3:
                case 4: op.kind = "get"; op.set("i", idx); break;
                case 5:
                case 6:
                    op.kind = "incr";
                    op.set("i", idx);
                    op.set("by", r.chance(1, 3) ? 0 : (r.chance(1, 2) ? 1 : r.below(maxv / 2 + 1)));
                    break;
                default: op.kind = "half"; op.set("i", idx); break;
                }
            } else if (mode == "sorted") {
                if (r.chance(1, 10)) {
                    // sorted insert - positional delete - positional append of a value not below the
                    // maximum - sorted insert again: the array is back at the length the last sorted
                    // insert left it with, but with another tail (state a call may have kept about
                    // "the array it grew last" is stale now)
                    uint64_t a = val(), b = val();
                    Op o1, o2, o3, o4;
                    o1.kind = "insert_sorted";
                    o1.set("v", a);
                    o2.kind = "delete";
                    o2.set("pos", r.chance(1, 2) ? cap - 1 : r.below(cap));
                    o3.kind = "append_max";
                    o3.set("v", b);
                    o4.kind = "insert_sorted";
                    o4.set("v", r.chance(1, 2) ? a : (r.chance(1, 2) ? b >> 1 : val()));
                    p.ops.push_back(o1);
                    p.ops.push_back(o2);
                    p.ops.push_back(o3);
                    p.ops.push_back(o4);
                    continue;
                }
                switch (r.below(10)) {
                case 0:
                case 1:
                case 2:
                case 3:
                    op.kind = "insert_sorted";
                    op.set("v", r.chance(1, 2) ? r.below(std::min<uint64_t>(maxv, 7) + 1) : val());
                    if (len < cap) len++;
                    break;
                case 4:
                case 5:
                    op.kind = "delete_member";
                    op.set("v", r.chance(1, 2) ? r.below(std::min<uint64_t>(maxv, 7) + 1) : val());
                    break;
                case 6:
                    op.kind = "member";
                    op.set("v", r.chance(1, 2) ? r.below(std::min<uint64_t>(maxv, 7) + 1) : val());
                    break;
                case 7: op.kind = "lower_bound"; op.set("v", val()); break;
                case 8: op.kind = "delete"; op.set("pos", r.below(cap)); break;
                default: op.kind = "get"; op.set("i", r.below(cap)); break;
                }
            } else {
                switch (r.below(6)) {
                case 0:
                case 1:
                case 2:
                    op.kind = "insert";
                    op.set("pos", r.below(cap));
                    op.set("v", val());
                    break;
                case 3:
                case 4: op.kind = "delete"; op.set("pos", r.below(cap)); break;
                default: op.kind = "get"; op.set("i", r.below(cap)); break;
                }
            }
            if (mode != "cells" && r.chance(1, 4)) op.set("bytes", 1); // the *Bytes form of the call, where it is defined
            p.ops.push_back(op);
        }
        return p;
    }

    // storage size whose derived element count (bytes*8/bits) equals len, or 0 if none exists
    static size_t bytes_for_len(size_t len, int bits) {
        size_t b = (len * (size_t)bits + 7) / 8;
        for (size_t t = b; t <= b + 8; t++)
            if ((t * 8) / (size_t)bits == len) return t;
        return 0;
    }

    Outcome execute(const Plan &plan) override {
        Outcome out;
        int cfg = (int)(plan.knob_u("cfg") % (uint64_t)shim_packed_ncfgs);
        const shim_packed_cfg &c = shim_packed_cfgs[cfg];
        int B = c.bits;
        size_t S = (size_t)c.slot_bytes;
        uint64_t maxv = B >= 64 ? ~0ULL : ((1ULL << B) - 1);
        size_t cap = std::max<size_t>(2, std::min<uint64_t>(plan.knob_u("cap", 8), 80000));
        std::string mode = plan.knob("mode", "cells");
        // exact number of slots for cap elements
        size_t nslots = (cap * (size_t)B + S * 8 - 1) / (S * 8);
        Store st;
        st.bytes = nslots * S;
        st.mem.resize(GUARD + st.bytes + GUARD);
        Rng fill(plan.knob_u("fill", 1));
        for (auto &b : st.mem) b = (uint8_t)fill.next(); // guards, elements and spare bits: seeded bits
        std::vector<uint8_t> image(st.mem);              // expected contents of the whole block
        uint8_t *img = image.data() + GUARD;
        std::vector<uint64_t> model;                     // logical array (sorted / positional modes)
        size_t len = mode == "cells" ? cap : 0;
        std::string state = std::string(c.name).substr(0, std::string(c.name).find('/')); // instantiation family
        bool spanning = false;
        out.cases = 1;
        g_log.str(c.name);
        fiber::alone_budget(400000000ULL); // a search or shift loop that never ends is a violation, not a stuck worker
        for (size_t oi = 0; oi < plan.ops.size(); oi++) {
            const Op &op = plan.ops[oi];
            const std::string &k = op.kind;
            std::string key = "op=" + k + " cfg=" + state;
            ctx_note(key);
            auto fail = [&](const std::string &cls, const std::string &detail) {
                out.cls = cls;
                out.key = key;
                out.detail = "op " + std::to_string(oi + 1) + " (" + op_to_text(op) + ") on " + c.name + ", " +
                             std::to_string(B) + "-bit elements in " + std::to_string(S * 8) + "-bit slots, capacity " +
                             std::to_string(cap) + ", length " + std::to_string(len) + ": " + detail;
            };
            bool footprint = false;
            size_t fi = 0; // element whose footprint is checked
            size_t vac_from = 1, vac_to = 0; // elements whose final value is unconstrained
            g_log.str(k.c_str());
            if (k == "prefill") {
                if (mode == "cells" || len != 0) continue;
                size_t n = std::min<size_t>(op.u("n"), cap - 1);
                Rng pr(op.u("seed") + 1);
                std::vector<uint64_t> vals(n);
                uint64_t spread = op.u("dups") == 0 ? maxv : (op.u("dups") == 1 ? std::min<uint64_t>(maxv, 15) : std::min<uint64_t>(maxv, n ? n : 1));
                for (auto &x : vals) x = spread == ~0ULL ? pr.next() : pr.next() % (spread + 1);
                std::sort(vals.begin(), vals.end());
                for (size_t j = 0; j < n; j++) {
                    c.set(st.base(), (uint32_t)j, vals[j]);
                    ref_set(img, j, B, vals[j]);
                }
                model = vals;
                len = n;
                spanning = true;
            } else if (k == "set" || k == "get" || k == "incr" || k == "half") {
                size_t i = (size_t)(op.u("i") % cap);
                fi = i;
                footprint = true;
                uint64_t cur = ref_get(img, i, B);
                fiber::footprint_begin();
                uint64_t got = 0;
                if (k == "set") {
                    uint64_t v = op.u("v") & maxv;
                    c.set(st.base(), (uint32_t)i, v);
                    ref_set(img, i, B, v);
                    if (mode != "cells" && i < len) model[i] = v;
                } else if (k == "get") {
                    got = c.get(st.base(), (uint32_t)i);
                } else if (k == "incr") {
                    uint64_t by = op.u("by");
                    if (by > maxv - cur) by = maxv - cur; // stated domain: non-negative, result in range
                    c.set_incr(st.base(), (uint32_t)i, (int64_t)by);
                    ref_set(img, i, B, cur + by);
                    if (mode != "cells" && i < len) model[i] = cur + by;
                } else {
                    c.set_half(st.base(), (uint32_t)i);
                    ref_set(img, i, B, cur / 2);
                    if (mode != "cells" && i < len) model[i] = cur / 2;
                }
                std::vector<fiber::Access> acc = fiber::footprint_end();
                g_log.u64(got);
                if (k == "get" && got != cur) {
                    fail("return-value", "Get returned " + std::to_string(got) + ", the element holds " + std::to_string(cur));
                    break;
                }
                size_t first_slot = (i * (size_t)B) / (S * 8), last_slot = ((i + 1) * (size_t)B - 1) / (S * 8);
                if (first_slot != last_slot) spanning = true;
                uintptr_t lo = (uintptr_t)st.base() + first_slot * S, hi = (uintptr_t)st.base() + (last_slot + 1) * S;
                uintptr_t blo = (uintptr_t)st.mem.data(), bhi = blo + st.mem.size();
                bool bad = false;
                std::ostringstream why;
                for (auto &a : acc) {
                    if (a.addr + a.size <= blo || a.addr >= bhi) continue; // not this storage block
                    if (a.addr < lo || a.addr + a.size > hi) {
                        bad = true;
                        why << (a.write ? "write" : "read") << " of " << a.size << " byte(s) at slot offset "
                            << (long)(a.addr - (uintptr_t)st.base()) << ", element " << i << " occupies bytes ["
                            << first_slot * S << "," << (last_slot + 1) * S << ")";
                        break;
                    }
                }
                stat("probe.footprint_checked");
                if (bad) {
                    fail("footprint", why.str());
                    break;
                }
            } else if (k == "insert_sorted" || k == "insert" || k == "append_max") {
                if (len >= cap) continue;
                uint64_t v = op.u("v") & maxv;
                size_t pos;
                if (k == "append_max") {
                    // positional insert behind the last element of a value that keeps the array sorted
                    if (len && model.back() > v) v = model.back();
                    pos = len;
                    c.insert(st.base(), (uint32_t)len, (uint32_t)pos, v);
                } else if (k == "insert_sorted") {
                    if (mode != "sorted") continue;
                    pos = (size_t)(std::lower_bound(model.begin(), model.end(), v) - model.begin());
                    size_t nb = op.u("bytes") ? bytes_for_len(len, B) : 0;
                    if (nb) {
                        stat("op.bytes_form");
                        c.insert_sorted_bytes(st.base(), nb, v);
                    } else
                        c.insert_sorted(st.base(), (uint32_t)len, v);
                } else {
                    pos = (size_t)(op.u("pos") % (len + 1));
                    size_t nb = op.u("bytes") ? bytes_for_len(len, B) : 0;
                    if (nb) {
                        stat("op.bytes_form");
                        c.insert_bytes(st.base(), nb, (uint32_t)pos, v);
                    } else
                        c.insert(st.base(), (uint32_t)len, (uint32_t)pos, v);
                }
                model.insert(model.begin() + (long)pos, v);
                len++;
                for (size_t j = 0; j < len; j++) ref_set(img, j, B, model[j]);
                spanning = true;
            } else if (k == "delete") {
                if (len == 0) continue;
                size_t pos = (size_t)(op.u("pos") % len);
                size_t nb = op.u("bytes") ? bytes_for_len(len, B) : 0;
                if (nb) {
                    stat("op.bytes_form");
                    c.del_bytes(st.base(), nb, (uint32_t)pos);
                } else
                    c.del(st.base(), (uint32_t)len, (uint32_t)pos);
                model.erase(model.begin() + (long)pos);
                len--;
                for (size_t j = 0; j < len; j++) ref_set(img, j, B, model[j]);
                vac_from = len;
                vac_to = len; // the vacated element is outside the array now: unconstrained
            } else if (k == "delete_member") {
                if (mode != "sorted") continue;
                uint64_t v = op.u("v") & maxv;
                auto it = std::lower_bound(model.begin(), model.end(), v);
                bool present = it != model.end() && *it == v;
                size_t nb = op.u("bytes") ? bytes_for_len(len, B) : 0;
                if (nb) stat("op.bytes_form");
                int ret = nb ? c.del_member_bytes(st.base(), nb, v) : c.del_member(st.base(), (uint32_t)len, v);
                g_log.u64((uint64_t)ret);
                if ((ret != 0) != present) {
                    fail("return-value", std::string("DeleteMember returned ") + (ret ? "true" : "false") +
                                             " but the value is " + (present ? "present" : "absent"));
                    break;
                }
                if (present) {
                    model.erase(it);
                    len--;
                    for (size_t j = 0; j < len; j++) ref_set(img, j, B, model[j]);
                    vac_from = len;
                    vac_to = len;
                }
            } else if (k == "member" || k == "lower_bound") {
                if (mode != "sorted") continue;
                uint64_t v = op.u("v") & maxv;
                auto it = std::lower_bound(model.begin(), model.end(), v);
                if (k == "member") {
                    int64_t want = (it != model.end() && *it == v) ? (int64_t)(it - model.begin()) : -1;
                    size_t nb = op.u("bytes") ? bytes_for_len(len, B) : 0;
                    if (nb) stat("op.bytes_form");
                    int64_t got = nb ? c.member_bytes(st.base(), nb, v) : c.member(st.base(), (uint32_t)len, v);
                    g_log.u64((uint64_t)got);
                    if (got != want) {
                        fail("return-value", "Member returned " + std::to_string(got) + ", the first equal element is at " +
                                                 std::to_string(want));
                        break;
                    }
                } else {
                    uint32_t got = c.lower_bound(st.base(), (uint32_t)len, v);
                    g_log.u64(got);
                    if (got != (uint32_t)(it - model.begin())) {
                        fail("return-value", "lower bound returned " + std::to_string(got) + ", expected " +
                                                 std::to_string(it - model.begin()));
                        break;
                    }
                }
            } else
                continue;
            stat("op." + k);
            // whole-block image comparison: guards, every element, spare bits
            if (vac_from <= vac_to)
                for (size_t j = vac_from; j <= vac_to && j < cap; j++) ref_set(img, j, B, ref_get(st.base(), j, B));
            if (memcmp(image.data(), st.mem.data(), st.mem.size()) != 0) {
                size_t off = 0;
                while (image[off] == st.mem[off]) off++;
                std::string where;
                std::string cls;
                if (off < GUARD || off >= GUARD + st.bytes) {
                    cls = "guard-modified";
                    where = "a guard byte at block offset " + std::to_string((long)off - (long)GUARD);
                } else {
                    size_t bit = (off - GUARD) * 8;
                    size_t el = bit / (size_t)B;
                    if (el >= cap) {
                        cls = "guard-modified";
                        where = "spare bits after the last element (byte " + std::to_string(off - GUARD) + ")";
                    } else {
                        cls = footprint && el == fi ? "element-value" : "neighbour-modified";
                        where = "element " + std::to_string(el) + " (byte " + std::to_string(off - GUARD) + "): holds " +
                                std::to_string(ref_get(st.base(), el, B)) + ", expected " + std::to_string(ref_get(img, el, B));
                    }
                }
                fail(cls, "storage differs from the reference image at " + where);
                break;
            }
        }
        fiber::alone_budget(0);
        if (spanning) out.nontrivial.push_back(plan.digest());
        stat(std::string("cfg.") + c.name);
        stat("mode." + mode);
        out.hash = g_log.h;
        return out;
    }
};

struct Reg {
    Reg() { register_engine(new PackedHist()); }
} reg;
} // namespace
