// E-HIST for dimension headers and matrix cells (C10): create(rows, cols)
// followed by a history of cell writes/reads of one entry kind, compared with a
// byte image model after every operation (header bytes and guard included).
#include "../core/gen.h"
#include "../core/sim.h"
#include <algorithm>
#include <cstring>
#include <sstream>

extern "C" {
#include "varintDimension.h"
}
#ifdef SIM_HAVE_F16C
#include <immintrin.h>
#endif

namespace {
using namespace sim;

unsigned width_of(uint64_t v) { // minimal little-endian byte width, 0 for 0
    unsigned w = 0;
    while (v) {
        w++;
        v >>= 8;
    }
    return w;
}

// Read - write - read of one cell in straight-line code, compiled with optimisation like any
// caller's code: whatever the header tells the compiler about these functions is part of the
// promise that a read after a write returns the written value.
static void rwr_unsigned(void *buf, size_t row, size_t col, uint64_t v, varintWidth w, varintDimensionPair dim,
                         uint64_t *pre, uint64_t *post) {
    *pre = varintDimensionPairEntryGetUnsigned(buf, row, col, w, dim);
    varintDimensionPairEntrySetUnsigned(buf, row, col, v, w, dim);
    *post = varintDimensionPairEntryGetUnsigned(buf, row, col, w, dim);
}
static void rwr_float(void *buf, size_t row, size_t col, float v, varintDimensionPair dim, float *pre, float *post) {
    *pre = varintDimensionPairEntryGetFloat(buf, row, col, dim);
    varintDimensionPairEntrySetFloat(buf, row, col, v, dim);
    *post = varintDimensionPairEntryGetFloat(buf, row, col, dim);
}
static void rwr_double(void *buf, size_t row, size_t col, double v, varintDimensionPair dim, double *pre, double *post) {
    *pre = varintDimensionPairEntryGetDouble(buf, row, col, dim);
    varintDimensionPairEntrySetDouble(buf, row, col, v, dim);
    *post = varintDimensionPairEntryGetDouble(buf, row, col, dim);
}

class MatrixHist : public Engine {
  public:
    const char *name() const override { return "hist.matrix"; }
    const char *property() const override { return "C10"; }
    uint64_t tag() const override { return 0x1001; }
    std::vector<std::string> fixed_args() const override { return {}; }

    static uint64_t value_of_width(Rng &r, unsigned w) {
        if (w == 0) return 0;
        uint64_t lo = w == 1 ? 1 : 1ULL << (8 * (w - 1));
        uint64_t hi = w == 8 ? ~0ULL : (1ULL << (8 * w)) - 1;
        switch (r.below(4)) {
        case 0: return lo;
        case 1: return hi;
        default: return lo + r.next() % (hi - lo + 1);
        }
    }

    Plan generate(uint64_t seed, Tier tier) override {
        Rng r(seed);
        Plan p;
        p.property = property();
        p.engine = name();
        p.seed = seed;
        // all 72 (row width 0-8) x (col width 1-8) shapes; half of the runs use small
        // materialisable matrices so that rows > 0 are addressed
        uint64_t rows, cols;
        if (r.chance(1, 2)) {
            rows = r.chance(1, 6) ? 0 : r.range(1, r.chance(1, 2) ? 12 : 200);
            cols = r.range(1, r.chance(1, 2) ? 12 : 300);
            if (r.chance(1, 8)) rows = r.range(256, 700), cols = r.range(1, 40);
            if (r.chance(1, 8)) cols = r.range(256, 2000), rows = r.range(0, 12);
        } else {
            rows = value_of_width(r, (unsigned)r.below(9));
            cols = value_of_width(r, (unsigned)r.range(1, 8));
        }
        static const char *kinds[] = {"bit", "bit", "unsigned", "unsigned", "unsigned", "float", "double", "half"};
        std::string kind = r.pick(kinds);
#ifndef SIM_HAVE_F16C
        if (kind == "half") kind = "float"; // half-float entries need a build that defines __F16C__
#endif
        unsigned ew = kind == "unsigned" ? (unsigned)r.range(1, 8) : kind == "float" ? 4 : kind == "double" ? 8 : kind == "half" ? 2 : 0;
        p.set_knob("rows", std::to_string(rows));
        p.set_knob("cols", std::to_string(cols));
        p.set_knob("kind", kind);
        p.set_knob("width", std::to_string(ew));
        p.set_knob("fill", std::to_string(r.next() & 0xffffffff));
        // how much of the body can be materialised
        uint64_t lim_cells = 0;
        bool full = materialised(rows, cols, kind, ew, lim_cells);
        size_t nops = r.range(1, tier == Tier::Thorough ? 80 : 40);
        {
            Op h;
            h.kind = "header";
            p.ops.push_back(h);
            if (rows < (1ULL << 32) && cols < (1ULL << 32)) {
                Op pk;
                pk.kind = "pack";
                p.ops.push_back(pk);
            }
            // the packed single-integer form has its own boundaries (4 bits per level)
            size_t npk = r.range(1, 4);
            for (size_t i = 0; i < npk; i++) {
                auto nib = [&]() -> uint64_t {
                    unsigned level = (unsigned)r.range(1, 8);
                    uint64_t edge = 1ULL << (4 * level);
                    switch (r.below(5)) {
                    case 0: return edge - 1;
                    case 1: return edge >= (1ULL << 32) ? edge - 1 : edge;
                    case 2: return edge - 2;
                    case 3: return r.below(edge);
                    default: return r.below(16);
                    }
                };
                Op pk;
                pk.kind = "pack";
                pk.set("row", nib());
                pk.set("col", nib());
                p.ops.push_back(pk);
            }
        }
        for (size_t i = 0; i < nops; i++) {
            Op op;
            uint64_t row = 0, col;
            if (full && rows > 0) {
                row = r.chance(1, 4) ? (r.chance(1, 2) ? 0 : rows - 1) : r.below(rows);
                col = r.chance(1, 4) ? (r.chance(1, 2) ? 0 : cols - 1) : r.below(cols);
            } else {
                // only the first lim_cells cells exist in memory: any (row, col) whose index is below that
                uint64_t idx = r.chance(1, 4) ? (r.chance(1, 2) ? 0 : lim_cells - 1) : r.below(lim_cells);
                if (rows > 1 && cols <= idx && idx / cols < rows) {
                    row = idx / cols;
                    col = idx % cols;
                } else
                    col = idx < cols ? idx : idx % cols;
            }
            if (i > 0 && r.chance(1, 3) && p.ops.back().has("row")) { // the same cell again
                row = p.ops.back().u("row");
                col = p.ops.back().u("col");
            }
            op.set("row", row);
            op.set("col", col);
            if (kind == "bit") {
                switch (r.below(5)) {
                case 0:
                case 1: op.kind = "set_bit"; op.set("v", r.below(2)); break;
                case 2: op.kind = "toggle"; break;
                case 3: op.kind = "set_bit"; op.set("v", 0); break;
                default: op.kind = "get"; break;
                }
            } else {
                if (r.chance(2, 3)) {
                    op.kind = "set";
                    uint64_t v = r.chance(1, 4) ? ~0ULL : (r.chance(1, 4) ? 0 : r.next());
                    if ((kind == "float" || kind == "double") && r.chance(1, 3)) {
                        // values that compare equal / unordered as numbers but differ as stored bits
                        static const uint32_t f32[] = {0x00000000u, 0x80000000u, 0x7f800000u, 0xff800000u, 0x7fc00000u,
                                                       0x7fc00001u, 0xffc00000u, 0x00000001u, 0x80000001u, 0x3f800000u};
                        static const uint64_t f64[] = {0x0000000000000000ULL, 0x8000000000000000ULL, 0x7ff0000000000000ULL,
                                                       0xfff0000000000000ULL, 0x7ff8000000000000ULL, 0x7ff8000000000001ULL,
                                                       0xfff8000000000000ULL, 0x0000000000000001ULL, 0x8000000000000001ULL,
                                                       0x3ff0000000000000ULL};
                        v = kind == "float" ? (uint64_t)r.pick(f32) : r.pick(f64);
                    }
                    op.set("v", v);
                } else
                    op.kind = "get";
            }
            p.ops.push_back(op);
            if (r.chance(1, 10)) {
                Op h;
                h.kind = "header";
                p.ops.push_back(h);
            }
            if (full && rows > 1 && r.chance(1, 12)) {
                // another matrix of the same width class moves into the same buffer: its header is
                // copied in (a serialised matrix read from elsewhere), not re-encoded in place
                unsigned rwid = width_of(rows), cwid = width_of(cols);
                uint64_t c2 = value_of_width(r, cwid), r2 = value_of_width(r, rwid);
                if (r.chance(1, 2)) c2 = cols > 1 ? cols - 1 - r.below(std::min<uint64_t>(cols - 1, 3)) : cols;
                if (r.chance(1, 3)) r2 = rows;
                Op rs;
                rs.kind = "reshape";
                rs.set("rows2", r2);
                rs.set("cols2", c2);
                rs.set("fill2", r.next() & 0xffffffff);
                p.ops.push_back(rs);
            }
        }
        return p;
    }

    // cells addressable in the buffer; returns true if the whole matrix is materialised
    static bool materialised(uint64_t rows, uint64_t cols, const std::string &kind, unsigned ew, uint64_t &cells) {
        const uint64_t BODY_LIMIT = 256 * 1024;
        uint64_t r = rows ? rows : 1;
        __uint128_t total = (__uint128_t)r * cols;
        uint64_t cell_bits = kind == "bit" ? 1 : (uint64_t)ew * 8;
        if (total * cell_bits <= (__uint128_t)BODY_LIMIT * 8) {
            cells = (uint64_t)total;
            return true;
        }
        // only the first cells are in memory: row 0 of a wide matrix, the first rows of a narrow one
        cells = rows ? 512 : std::min<uint64_t>(cols, 512);
        return false;
    }

    Outcome execute(const Plan &plan) override {
        Outcome out;
        uint64_t rows = plan.knob_u("rows"), cols = plan.knob_u("cols");
        if (cols == 0) return out;
        std::string kind = plan.knob("kind", "bit");
        unsigned ew = (unsigned)std::min<uint64_t>(plan.knob_u("width", 1), 8);
        if (kind == "unsigned" && ew == 0) ew = 1;
        if (kind == "float") ew = 4;
        if (kind == "double") ew = 8;
        if (kind == "half") ew = 2;
#ifndef SIM_HAVE_F16C
        if (kind == "half") {
            out.cls = "skip";
            out.detail = "half-float entries are not compiled into this build";
            return out;
        }
#endif
        unsigned rw = width_of(rows), cw = width_of(cols);
        size_t H = rw + cw;
        uint64_t cells = 0;
        bool full = materialised(rows, cols, kind, ew, cells);
        size_t body = kind == "bit" ? (size_t)((cells + 7) / 8) : (size_t)cells * ew;
        size_t total = H + body;
        // exact-size heap block: ASan's redzone is the guard
        uint8_t *buf = (uint8_t *)malloc(total ? total : 1);
        Rng fill(plan.knob_u("fill", 7));
        for (size_t i = 0; i < total; i++) buf[i] = (uint8_t)fill.next();
        std::vector<uint8_t> image(buf, buf + total);
        out.cases = 1;
        std::string shape = "rows" + std::to_string(rw) + "xcols" + std::to_string(cw);
        g_log.str(kind.c_str());
        g_log.u64(rows);
        g_log.u64(cols);
        // ---- create: write the header
        ctx_note("op=create kind=" + kind);
        uint8_t hdr[32];
        memset(hdr, 0xAB, sizeof hdr);
        varintDimensionPair dim = varintDimensionPairEncode(hdr, rows, cols);
        varintDimensionPair dim2 = varintDimensionPairDimension(rows, cols);
        bool row_gt0 = false;
        auto fail = [&](const std::string &cls, const std::string &key, const std::string &detail) {
            out.cls = cls;
            out.key = key;
            out.detail = std::to_string(rows) + " x " + std::to_string(cols) + " matrix of " + kind +
                         (kind == "unsigned" ? std::to_string(ew * 8) : std::string("")) + " entries: " + detail;
        };
        do {
            // header: announced length, width fields, bytes
            unsigned got_rw = VARINT_DIMENSION_PAIR_WIDTH_ROW_COUNT(dim), got_cw = VARINT_DIMENSION_PAIR_WIDTH_COL_COUNT(dim);
            size_t announced = VARINT_DIMENSION_PAIR_BYTE_LENGTH(dim);
            if (dim != dim2) {
                fail("header", "op=create header", "PairEncode and PairDimension disagree on the dimension byte");
                break;
            }
            if (got_rw != rw || got_cw != cw || announced != H) {
                fail("header", "op=create header",
                     "dimension byte " + std::to_string((unsigned)dim) + " decodes to widths " + std::to_string(got_rw) +
                         "/" + std::to_string(got_cw) + " (header length " + std::to_string(announced) + "), the pair needs " +
                         std::to_string(rw) + "/" + std::to_string(cw) + " (" + std::to_string(H) + " bytes)");
                break;
            }
            uint8_t want[16];
            for (unsigned i = 0; i < rw; i++) want[i] = (uint8_t)(rows >> (8 * i));
            for (unsigned i = 0; i < cw; i++) want[rw + i] = (uint8_t)(cols >> (8 * i));
            bool hdr_ok = memcmp(hdr, want, H) == 0;
            for (size_t i = H; i < sizeof hdr; i++)
                if (hdr[i] != 0xAB) hdr_ok = false;
            if (!hdr_ok) {
                fail("header", "op=create header", "header bytes are not the little-endian row and column counts "
                                                   "in exactly the announced number of bytes");
                break;
            }
            memcpy(buf, hdr, H);
            memcpy(image.data(), hdr, H);
            for (size_t oi = 0; oi < plan.ops.size() && !out.violation(); oi++) {
                const Op &op = plan.ops[oi];
                const std::string &k = op.kind;
                std::string key = "op=" + k + " kind=" + kind;
                ctx_note(key);
                g_log.str(k.c_str());
                if (k == "header") {
                    // re-read the header through the public accessors
                    if (memcmp(buf, want, H) != 0) {
                        fail("header-modified", key, "header bytes changed");
                        break;
                    }
                    continue;
                }
                if (k == "reshape") {
                    uint64_t r2 = op.u("rows2"), c2 = op.u("cols2");
                    if (c2 == 0 || width_of(r2) != rw || width_of(c2) != cw) continue;
                    uint64_t cells2 = 0;
                    bool full2 = materialised(r2, c2, kind, ew, cells2);
                    size_t body2 = kind == "bit" ? (size_t)((cells2 + 7) / 8) : (size_t)cells2 * ew;
                    if (H + body2 > total) continue; // does not fit the block this run owns
                    uint8_t h2[32];
                    memset(h2, 0xAB, sizeof h2);
                    varintDimensionPair d2 = varintDimensionPairDimension(r2, c2);
                    if (d2 != dim) continue; // same width class means the same dimension byte
                    // a serialised header produced elsewhere, copied into place
                    for (unsigned i = 0; i < rw; i++) h2[i] = (uint8_t)(r2 >> (8 * i));
                    for (unsigned i = 0; i < cw; i++) h2[rw + i] = (uint8_t)(c2 >> (8 * i));
                    memcpy(buf, h2, H);
                    memcpy(image.data(), h2, H);
                    memcpy(want, h2, H);
                    Rng f2(op.u("fill2", 11));
                    for (size_t i = H; i < total; i++) buf[i] = image[i] = (uint8_t)f2.next();
                    rows = r2;
                    cols = c2;
                    cells = cells2;
                    full = full2;
                    stat("op.reshape");
                    g_log.u64(rows);
                    g_log.u64(cols);
                    continue;
                }
                if (k == "pack") {
                    uint64_t prow = op.has("row") ? op.u("row") : rows, pcol = op.has("col") ? op.u("col") : cols;
                    if (prow >= (1ULL << 32) || pcol >= (1ULL << 32)) continue;
                    uint64_t packed = 0;
                    varintDimensionPacked pd = VARINT_DIMENSION_PACKED_1;
                    bool okp = varintDimensionPack(prow, pcol, &packed, &pd);
                    size_t r2 = ~(size_t)0, c2 = ~(size_t)0;
                    if (okp) varintDimensionUnpack(&r2, &c2, packed, pd);
                    g_log.u64(packed);
                    stat("op.pack");
                    // the announced level must hold both halves: 2 x 4*level bits
                    bool fits = okp && (unsigned)pd >= 1 && (unsigned)pd <= 8 &&
                                ((unsigned)pd == 8 || (packed >> (8 * (unsigned)pd)) == 0);
                    if (!okp || r2 != prow || c2 != pcol || !fits) {
                        fail("header", "op=pack", "pair (" + std::to_string(prow) + ", " + std::to_string(pcol) + "): " +
                             std::string(!okp ? "packing was refused" : !fits ? "the packed integer does not fit the announced level " + std::to_string((unsigned)pd) : "packed form decodes to " + std::to_string(r2) + " x " + std::to_string(c2)));
                        break;
                    }
                    continue;
                    if (!okp || r2 != rows || c2 != cols) {
                        fail("header", "op=pack", std::string("packed form ") + (okp ? "decodes to " + std::to_string(r2) + " x " + std::to_string(c2) : "was refused"));
                        break;
                    }
                    continue;
                }
                uint64_t row = op.u("row"), col = op.u("col");
                if (rows == 0) row = 0;
                if (full && rows > 0) {
                    row %= rows;
                    col %= cols;
                } else {
                    // partially materialised: the cell must exist in the matrix and in memory
                    col %= cols;
                    if (rows) row %= rows;
                    if ((__uint128_t)row * cols + col >= cells) {
                        row = 0;
                        col %= std::min<uint64_t>(cols, cells);
                    }
                }
                if (row > 0) row_gt0 = true;
                uint64_t idx = row * cols + col; // cell index (row 0: col)
                stat("op." + k);
                if (kind == "bit") {
                    size_t byte = H + (size_t)(idx / 8);
                    unsigned bit = (unsigned)(idx % 8);
                    bool cur = (image[byte] >> bit) & 1;
                    if (k == "set_bit") {
                        bool v = op.u("v") & 1;
                        varintDimensionPairEntrySetBit(buf, row, col, v, dim);
                        if (v) image[byte] |= (uint8_t)(1u << bit); else image[byte] &= (uint8_t)~(1u << bit);
                        stat(v ? "bit.set_true" : "bit.set_false");
                    } else if (k == "toggle") {
                        bool prev = varintDimensionPairEntryToggleBit(buf, row, col, dim);
                        image[byte] ^= (uint8_t)(1u << bit);
                        if (prev != cur) {
                            fail("return-value", key, "Toggle returned " + std::to_string(prev) + ", the previous value was " + std::to_string(cur));
                            break;
                        }
                    } else if (k == "get") {
                        bool got = varintDimensionPairEntryGetBit(buf, row, col, dim);
                        if (got != cur) {
                            fail("return-value", key, "GetBit(" + std::to_string(row) + "," + std::to_string(col) + ") returned " + std::to_string(got) + ", the cell holds " + std::to_string(cur));
                            break;
                        }
                    } else
                        continue;
                    // a read right after every write
                    bool now = varintDimensionPairEntryGetBit(buf, row, col, dim);
                    if (now != (bool)((image[byte] >> bit) & 1)) {
                        fail("cell-value", key, "cell (" + std::to_string(row) + "," + std::to_string(col) + ") reads " + std::to_string(now) + " after the write, expected " + std::to_string((image[byte] >> bit) & 1));
                        break;
                    }
                } else {
                    size_t off = H + (size_t)idx * ew;
                    if (k == "set") {
                        // read - write - read of one cell in straight-line code (helpers above)
                        uint64_t pre_want = 0, pre_got = 0, post_got = 0, post_want = 0;
                        memcpy(&pre_want, &image[off], ew);
                        uint64_t v = op.u("v");
                        bool rwr = true;
                        if (kind == "unsigned") {
                            if (ew < 8) v &= (1ULL << (8 * ew)) - 1;
                            rwr_unsigned(buf, row, col, v, (varintWidth)ew, dim, &pre_got, &post_got);
                            for (unsigned i = 0; i < ew; i++) image[off + i] = (uint8_t)(v >> (8 * i));
                        } else if (kind == "float") {
                            uint32_t b32 = (uint32_t)v;
                            float f, pf = 0, qf = 0;
                            memcpy(&f, &b32, 4);
                            rwr_float(buf, row, col, f, dim, &pf, &qf);
                            memcpy(&pre_got, &pf, 4);
                            memcpy(&post_got, &qf, 4);
                            memcpy(&image[off], &b32, 4);
#ifdef SIM_HAVE_F16C
                        } else if (kind == "half") {
                            // a finite float of moderate magnitude; the cell must hold its IEEE half conversion
                            float f = (float)((double)(int64_t)(v % 200001) - 100000.0) / 64.0f;
                            varintDimensionPairEntrySetFloatHalf(buf, row, col, f, dim);
                            uint16_t h = _cvtss_sh(f, 0);
                            memcpy(&image[off], &h, 2);
                            rwr = false;
#endif
                        } else {
                            double dv, pd = 0, qd = 0;
                            memcpy(&dv, &v, 8);
                            rwr_double(buf, row, col, dv, dim, &pd, &qd);
                            memcpy(&pre_got, &pd, 8);
                            memcpy(&post_got, &qd, 8);
                            memcpy(&image[off], &v, 8);
                        }
                        memcpy(&post_want, &image[off], ew);
                        if (rwr && pre_got != pre_want) {
                            fail("return-value", key, "cell (" + std::to_string(row) + "," + std::to_string(col) + ") reads " + std::to_string(pre_got) + " before the write, expected " + std::to_string(pre_want));
                            break;
                        }
                        if (rwr && post_got != post_want) {
                            fail("cell-value", key, "cell (" + std::to_string(row) + "," + std::to_string(col) + ") reads " + std::to_string(post_got) + " right after the write of " + std::to_string(post_want) + " (read, write, read in one function)");
                            break;
                        }
                    } else if (k != "get")
                        continue;
                    // read back
                    uint64_t want_v = 0, got_v = 0;
                    memcpy(&want_v, &image[off], ew);
                    if (kind == "unsigned")
                        got_v = varintDimensionPairEntryGetUnsigned(buf, row, col, (varintWidth)ew, dim);
                    else if (kind == "float") {
                        float f = varintDimensionPairEntryGetFloat(buf, row, col, dim);
                        memcpy(&got_v, &f, 4);
#ifdef SIM_HAVE_F16C
                    } else if (kind == "half") {
                        // compare in float: the cell's half value widened
                        float f = varintDimensionPairEntryGetFloatHalf(buf, row, col, dim);
                        uint16_t h;
                        memcpy(&h, &image[off], 2);
                        float wf = _cvtsh_ss(h);
                        uint32_t a = 0, b = 0;
                        memcpy(&a, &f, 4);
                        memcpy(&b, &wf, 4);
                        got_v = a;
                        want_v = b;
#endif
                    } else {
                        double dv = varintDimensionPairEntryGetDouble(buf, row, col, dim);
                        memcpy(&got_v, &dv, 8);
                    }
                    g_log.u64(got_v);
                    if (got_v != want_v) {
                        fail(k == "set" ? "cell-value" : "return-value", key,
                             "cell (" + std::to_string(row) + "," + std::to_string(col) + ") reads " + std::to_string(got_v) + ", expected " + std::to_string(want_v));
                        break;
                    }
                }
                // only the addressed cell may differ from the previous image
                if (memcmp(buf, image.data(), total) != 0) {
                    size_t off = 0;
                    while (buf[off] == image[off]) off++;
                    if (off < H)
                        fail("header-modified", key, "header byte " + std::to_string(off) + " changed");
                    else
                        fail("neighbour-modified", key, "byte " + std::to_string(off - H) + " of the matrix body differs from the model after writing cell (" + std::to_string(row) + "," + std::to_string(col) + ")");
                    break;
                }
            }
        } while (0);
        if (row_gt0) out.nontrivial.push_back(plan.digest());
        stat("shape." + shape);
        stat("kind." + kind);
        free(buf);
        out.hash = g_log.h;
        return out;
    }
};

struct Reg {
    Reg() { register_engine(new MatrixHist()); }
} reg;
} // namespace
