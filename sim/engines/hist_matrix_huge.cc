// E-HIST for very large matrices (C10): the body is an untouched MAP_NORESERVE
// mapping of up to 1 GiB, the model is sparse (only bytes ever written), and
// after every operation the written bytes, the cell's neighbours and the cells
// that a truncated index computation would alias (index mod 2^16, 2^24, 2^31,
// 2^32) are compared.  Complements hist.matrix, which compares whole buffers of
// up to 256 KiB.
#include "../core/gen.h"
#include "../core/sim.h"
#include <algorithm>
#include <cstring>
#include <map>
#include <sstream>
#include <sys/mman.h>

extern "C" {
#include "varintDimension.h"
}

namespace {
using namespace sim;

unsigned width_of(uint64_t v) {
    unsigned w = 0;
    while (v) {
        w++;
        v >>= 8;
    }
    return w;
}

class HugeMatrix : public Engine {
  public:
    const char *name() const override { return "hist.hugematrix"; }
    const char *property() const override { return "C10"; }
    uint64_t tag() const override { return 0x1002; }

    static uint64_t cell_bits(const std::string &kind, unsigned ew) { return kind == "bit" ? 1 : (uint64_t)ew * 8; }

    Plan generate(uint64_t seed, Tier) override {
        Rng r(seed);
        Plan p;
        p.property = property();
        p.engine = name();
        p.seed = seed;
        static const char *kinds[] = {"bit", "bit", "unsigned", "unsigned", "float", "double"};
        std::string kind = r.pick(kinds);
        unsigned ew = kind == "unsigned" ? (unsigned)r.range(1, 8) : kind == "float" ? 4 : kind == "double" ? 8 : 0;
        // total size class in bits of body
        static const unsigned classes[] = {23, 27, 31, 32, 32, 33};
        unsigned cls = r.pick(classes);
        uint64_t bits = (1ULL << cls) + (r.chance(1, 2) ? r.below(1ULL << (cls - 6)) : 0);
        uint64_t cells = bits / cell_bits(kind, ew);
        if (cells < 1024) cells = 1024;
        // split into rows x cols with both well above 255
        unsigned half = 0;
        while ((1ULL << (2 * half + 2)) <= cells) half++;
        uint64_t rows = (1ULL << half) + r.below((1ULL << half) / 4 + 1) + (r.chance(1, 2) ? 1 : 0);
        if (r.chance(1, 3)) rows = std::max<uint64_t>(3, rows >> r.range(1, half > 4 ? half - 3 : 1));
        uint64_t cols = cells / rows + 1;
        if (r.chance(1, 4)) {
            // a few very long rows: column counts around the limits of their header width
            static const uint64_t edges[] = {1ULL << 31, (1ULL << 31) + 5, (1ULL << 32) - 1, (1ULL << 31) - 1, 1ULL << 32,
                                             1ULL << 24, (1ULL << 24) - 1, 1ULL << 16, (1ULL << 32) + 3, 3ULL << 30};
            cols = r.pick(edges) + (r.chance(1, 2) ? 0 : r.below(9));
            rows = cols > (1ULL << 31) + 16 ? 2 : r.range(2, 4);
            if ((__uint128_t)rows * cols * cell_bits(kind, ew) > (9ULL << 30)) { // keep it mappable: bits
                kind = "bit";
                ew = 0;
            }
        }
        // keep the mapping below ~1.1 GiB
        while ((__uint128_t)rows * cols * cell_bits(kind, ew) > (9ULL << 30)) cols = cols * 3 / 4 + 1;
        p.set_knob("rows", std::to_string(rows));
        p.set_knob("cols", std::to_string(cols));
        p.set_knob("kind", kind);
        p.set_knob("width", std::to_string(ew));
        uint64_t total_cells = rows * cols;
        size_t nops = r.range(2, 24);
        for (size_t i = 0; i < nops; i++) {
            Op op;
            uint64_t idx;
            switch (r.below(6)) {
            case 0: idx = total_cells - 1 - r.below(std::min<uint64_t>(total_cells, 3)); break; // last cells
            case 1: idx = (rows - 1) * cols + r.below(cols); break;                                // last row
            case 2:
            case 3: { // around a power-of-two cell / bit / byte index
                static const unsigned edges[] = {16, 24, 31, 32, 33};
                uint64_t e = (1ULL << r.pick(edges));
                uint64_t unit = r.chance(1, 2) ? 1 : std::max<uint64_t>(1, cell_bits(kind, ew) / 8); // index vs byte offset
                uint64_t target = e / unit;
                long d = (long)r.below(5) - 2;
                idx = (uint64_t)((long)target + d);
                if (idx >= total_cells) idx = r.below(total_cells);
                break;
            }
            default: idx = r.below(total_cells); break;
            }
            op.set("row", idx / cols);
            op.set("col", idx % cols);
            if (kind == "bit") {
                switch (r.below(4)) {
                case 0:
                case 1: op.kind = "set_bit"; op.set("v", r.chance(2, 3)); break;
                case 2: op.kind = "toggle"; break;
                default: op.kind = "get"; break;
                }
            } else if (r.chance(3, 4)) {
                op.kind = "set";
                op.set("v", r.chance(1, 4) ? ~0ULL : r.next());
            } else
                op.kind = "get";
            p.ops.push_back(op);
        }
        return p;
    }

    Outcome execute(const Plan &plan) override {
        Outcome out;
        uint64_t rows = plan.knob_u("rows"), cols = plan.knob_u("cols");
        std::string kind = plan.knob("kind", "bit");
        unsigned ew = (unsigned)std::min<uint64_t>(plan.knob_u("width", 1), 8);
        if (kind == "unsigned" && !ew) ew = 1;
        if (kind == "float") ew = 4;
        if (kind == "double") ew = 8;
        if (!rows || !cols) return out;
        __uint128_t tot = (__uint128_t)rows * cols * cell_bits(kind, ew);
        if (tot > (10ULL << 30)) return out; // outside what this engine maps
        unsigned rw = width_of(rows), cw = width_of(cols);
        size_t H = rw + cw;
        size_t body = (size_t)((tot + 7) / 8);
        size_t page = 4096;
        size_t maplen = ((H + body + page - 1) / page + 2) * page;
        uint8_t *map = (uint8_t *)mmap(nullptr, maplen, PROT_READ | PROT_WRITE, MAP_PRIVATE | MAP_ANONYMOUS | MAP_NORESERVE, -1, 0);
        if (map == MAP_FAILED) {
            out.cls = "skip";
            out.detail = "cannot map the matrix";
            return out;
        }
        // guard page in front; the matrix ends as close to the trailing guard page as alignment allows
        mprotect(map, page, PROT_NONE);
        mprotect(map + maplen - page, page, PROT_NONE);
        uint8_t *buf = map + page;
        out.cases = 1;
        g_log.str(kind.c_str());
        g_log.u64(rows);
        g_log.u64(cols);
        ctx_note("op=create kind=" + kind);
        varintDimensionPair dim = varintDimensionPairEncode(buf, rows, cols);
        std::map<uint64_t, uint8_t> model; // body byte offset -> expected value (absent = 0)
        auto expect = [&](uint64_t off) -> uint8_t {
            auto it = model.find(off);
            return it == model.end() ? 0 : it->second;
        };
        auto fail = [&](const std::string &cls, const std::string &key, const std::string &detail) {
            out.cls = cls;
            out.key = key;
            out.detail = std::to_string(rows) + " x " + std::to_string(cols) + " matrix of " + kind +
                         (kind == "unsigned" ? std::to_string(ew * 8) : std::string("")) + " entries (" +
                         std::to_string(body >> 20) + " MiB): " + detail;
        };
        if ((size_t)VARINT_DIMENSION_PAIR_BYTE_LENGTH(dim) != H) {
            fail("header", "op=create header", "announced header length differs from the widths of the pair");
        }
        bool beyond32 = false;
        for (size_t oi = 0; oi < plan.ops.size() && !out.violation(); oi++) {
            const Op &op = plan.ops[oi];
            const std::string &k = op.kind;
            uint64_t row = op.u("row") % rows, col = op.u("col") % cols;
            uint64_t idx = row * cols + col;
            std::string key = "op=" + k + " kind=" + kind + " huge";
            ctx_note(key);
            g_log.str(k.c_str());
            stat("op." + k);
            uint64_t boff; // first body byte of the cell
            if (kind == "bit") {
                boff = idx / 8;
                unsigned bit = (unsigned)(idx % 8);
                if (idx >> 32) beyond32 = true;
                bool cur = (expect(boff) >> bit) & 1;
                if (k == "set_bit") {
                    bool v = op.u("v") & 1;
                    varintDimensionPairEntrySetBit(buf, row, col, v, dim);
                    uint8_t b = expect(boff);
                    model[boff] = v ? (uint8_t)(b | (1u << bit)) : (uint8_t)(b & ~(1u << bit));
                } else if (k == "toggle") {
                    bool prev = varintDimensionPairEntryToggleBit(buf, row, col, dim);
                    model[boff] = (uint8_t)(expect(boff) ^ (1u << bit));
                    if (prev != cur) {
                        fail("return-value", key, "Toggle(" + std::to_string(row) + "," + std::to_string(col) + ") returned " + std::to_string(prev) + ", the previous value was " + std::to_string(cur));
                        break;
                    }
                } else if (k != "get")
                    continue;
                bool got = varintDimensionPairEntryGetBit(buf, row, col, dim);
                if (got != (bool)((expect(boff) >> bit) & 1)) {
                    fail(k == "get" ? "return-value" : "cell-value", key, "cell (" + std::to_string(row) + "," + std::to_string(col) + ") reads " + std::to_string(got) + ", expected " + std::to_string((expect(boff) >> bit) & 1));
                    break;
                }
            } else {
                boff = idx * ew;
                if (boff >> 32) beyond32 = true;
                if (k == "set") {
                    uint64_t v = op.u("v");
                    if (kind == "unsigned") {
                        if (ew < 8) v &= (1ULL << (8 * ew)) - 1;
                        varintDimensionPairEntrySetUnsigned(buf, row, col, v, (varintWidth)ew, dim);
                    } else if (kind == "float") {
                        uint32_t b32 = (uint32_t)v;
                        float f;
                        memcpy(&f, &b32, 4);
                        varintDimensionPairEntrySetFloat(buf, row, col, f, dim);
                        v = b32;
                    } else {
                        double dv;
                        memcpy(&dv, &v, 8);
                        varintDimensionPairEntrySetDouble(buf, row, col, dv, dim);
                    }
                    for (unsigned i = 0; i < ew; i++) model[boff + i] = (uint8_t)(v >> (8 * i));
                } else if (k != "get")
                    continue;
                uint64_t want = 0, got = 0;
                for (unsigned i = 0; i < ew; i++) want |= (uint64_t)expect(boff + i) << (8 * i);
                if (kind == "unsigned")
                    got = varintDimensionPairEntryGetUnsigned(buf, row, col, (varintWidth)ew, dim);
                else if (kind == "float") {
                    float f = varintDimensionPairEntryGetFloat(buf, row, col, dim);
                    memcpy(&got, &f, 4);
                } else {
                    double dv = varintDimensionPairEntryGetDouble(buf, row, col, dim);
                    memcpy(&got, &dv, 8);
                }
                g_log.u64(got);
                if (got != want) {
                    fail(k == "get" ? "return-value" : "cell-value", key, "cell (" + std::to_string(row) + "," + std::to_string(col) + ") reads " + std::to_string(got) + ", expected " + std::to_string(want));
                    break;
                }
            }
            // every byte ever written, the cell's neighbourhood, and the places a truncated
            // index computation would have hit instead
            std::vector<uint64_t> probes;
            for (auto &kv : model) probes.push_back(kv.first);
            for (long d = -9; d <= 16; d++)
                if ((long)boff + d >= 0 && (uint64_t)((long)boff + d) < body) probes.push_back((uint64_t)((long)boff + d));
            for (unsigned sh : {16u, 24u, 31u, 32u}) {
                uint64_t a1 = boff & ((1ULL << sh) - 1);                       // byte offset truncated
                uint64_t a2 = kind == "bit" ? (idx & ((1ULL << sh) - 1)) / 8  // bit index truncated
                                            : (idx & ((1ULL << sh) - 1)) * ew; // cell index truncated
                for (uint64_t a : {a1, a2})
                    for (unsigned i = 0; i < std::max(1u, ew); i++)
                        if (a + i < body) probes.push_back(a + i);
            }
            for (uint64_t off : probes) {
                if (buf[H + off] != expect(off)) {
                    fail("neighbour-modified", key, "after writing cell (" + std::to_string(row) + "," + std::to_string(col) + ") at body byte " + std::to_string(boff) + ", body byte " + std::to_string(off) + " holds " + std::to_string(buf[H + off]) + " instead of " + std::to_string(expect(off)));
                    break;
                }
            }
            uint8_t hdr[16];
            varintDimensionPairEncode(hdr, rows, cols);
            if (!out.violation() && memcmp(hdr, buf, H) != 0) fail("header-modified", key, "a header byte changed");
        }
        if (beyond32) {
            out.nontrivial.push_back(plan.digest());
            stat("runs_addressing_beyond_2^32");
        }
        stat("kind." + kind);
        munmap(map, maplen);
        out.hash = g_log.h;
        return out;
    }
};

struct Reg {
    Reg() { register_engine(new HugeMatrix()); }
} reg;
} // namespace
