// E-HIST for varintBitmap: operation histories against a 65536-bit set model.
// Two engines share this code:
//   hist.bitmap  (C08)  fault-free histories, set-semantics oracle
//   alloc.bitmap (C18)  the same histories with "the k-th allocation request of
//                       this operation fails", every k enumerated for one op
#include "../core/sim.h"
#include "../seams/alloc.h"
#include <bitset>
#include <cstring>
#include <memory>
#include <sstream>

extern "C" {
#include "varintBitmap.h"
}

namespace {
using namespace sim;
typedef std::bitset<65536> Set;

const char *type_name(int t) {
    switch (t) {
    case VARINT_BITMAP_ARRAY: return "ARRAY";
    case VARINT_BITMAP_BITMAP: return "BITMAP";
    case VARINT_BITMAP_RUNS: return "RUNS";
    default: return "INVALID";
    }
}

const int NOBJ = 3;

struct World {
    size_t allow = 0;       // unowned blocks tolerated (what the library demonstrably keeps for itself)
    size_t max_unowned = 0; // most unowned blocks seen at a check point of this history
    size_t leak_total = 0;  // at a suspected leak: unowned blocks of this run + blocks kept from earlier runs
    varintBitmap *obj[NOBJ] = {nullptr, nullptr, nullptr};
    std::unique_ptr<Set> model[NOBJ];
    World() {
        for (auto &m : model) m.reset(new Set());
    }
};

struct Fail {
    std::string cls, key, detail;
};

class BitmapHist : public Engine {
    bool faults_;
    // scratch buffers (harness-owned, ASan redzones apply)
    uint16_t *outbuf_ = nullptr;
    static const size_t OUTCAP = 65536 + 64;

  public:
    explicit BitmapHist(bool faults) : faults_(faults) {}
    const char *name() const override { return faults_ ? "alloc.bitmap" : "hist.bitmap"; }
    const char *property() const override { return faults_ ? "C18" : "C08"; }
    uint64_t tag() const override { return faults_ ? 0x1808 : 0x0808; }
    std::vector<std::string> droppable_args() const override { return {"fail"}; }
    std::vector<std::string> fixed_args() const override { return {"fail"}; }

    // ------------------------------------------------------------------ gen
    struct GenState {
        Rng rng;
        Set m[NOBJ];
        std::vector<uint32_t> focus;
        int is_run[NOBJ] = {0, 0, 0}; // the slot is (probably) a single-run container
        explicit GenState(uint64_t seed) : rng(seed) {}
    };

    static uint32_t gen_val(GenState &g) {
        Rng &r = g.rng;
        switch (r.below(10)) {
        case 0: {
            static const uint32_t b[] = {0, 1, 2, 4095, 4096, 4097, 65534, 65535, 255, 256, 32767, 32768};
            return r.pick(b);
        }
        case 1:
        case 2:
        case 3: { // near a focus point
            uint32_t f = g.focus[r.below(g.focus.size())];
            int d = (int)r.below(7) - 3;
            int v = (int)f + d;
            if (v < 0) v = 0;
            if (v > 65535) v = 65535;
            return (uint32_t)v;
        }
        case 4:
        case 5: return (uint32_t)r.below(300); // small dense region: collisions
        case 6: return (uint32_t)r.below(8192);
        default: return (uint32_t)r.below(65536);
        }
    }

    static uint32_t pick_member(GenState &g, int o) {
        // a member of the generation-time model, or a random value if empty
        size_t c = g.m[o].count();
        if (c == 0) return gen_val(g);
        uint32_t start = (uint32_t)g.rng.below(65536);
        size_t p = g.m[o]._Find_next(start);
        if (p >= 65536) p = g.m[o]._Find_first();
        return (uint32_t)p;
    }

    void gen_range(GenState &g, uint32_t &mn, uint32_t &mx) {
        Rng &r = g.rng;
        uint32_t len;
        switch (r.below(10)) {
        case 0: len = (uint32_t)r.range(1, 6); break;
        case 1: len = (uint32_t)r.range(4094, 4098); break;
        case 2:
        case 3:
        case 4: len = (uint32_t)r.range(4097, 6000); break;
        case 5: len = (uint32_t)r.range(6000, 65535); break;
        case 6: len = (uint32_t)r.range(1, 64); break;
        default: len = (uint32_t)r.range(1, 6000); break;
        }
        if (len > 65535) len = 65535;
        uint32_t room = 65535 - len; // max <= 65535 (uint16_t argument)
        mn = r.chance(1, 4) ? (r.chance(1, 2) ? 0 : room) : (uint32_t)r.below((uint64_t)room + 1);
        if (r.chance(1, 2)) { // start (or end) at, just after or just before a focus point
            uint32_t f = g.focus[r.below(g.focus.size())];
            long adj = (long)f + (long)r.below(5) - 2;
            if (r.chance(1, 2)) {
                if (adj >= 0 && adj <= (long)room) mn = (uint32_t)adj;
            } else if (adj >= (long)len && adj <= 65535) {
                mn = (uint32_t)adj - len; // the range ends there
            }
        }
        mx = mn + len;
        if (r.chance(1, 12)) { // ranges touching both ends of the universe
            static const uint32_t ends[][2] = {{0, 65535}, {0, 65534}, {1, 65535}, {0, 4097}, {61438, 65535}};
            const uint32_t *e = ends[r.below(5)];
            mn = e[0];
            mx = e[1];
        }
        // later operations aim at the ends of this range
        // (rolling list: the oldest anchors are forgotten)
        g.focus.push_back(mx > 65535 ? 65535 : mx);
        g.focus.push_back(mn);
        while (g.focus.size() > 14) g.focus.erase(g.focus.begin() + 5);
        if (r.chance(1, 40)) std::swap(mn, mx); // min >= max: documented no-op
        if (r.chance(1, 60)) mx = mn;
    }

    Plan generate(uint64_t seed, Tier tier) override {
        GenState g(seed);
        Rng &r = g.rng;
        Plan p;
        p.property = property();
        p.engine = name();
        p.seed = seed;
        for (int i = 0; i < 4; i++) g.focus.push_back((uint32_t)r.below(65536));
        g.focus.push_back(4096);
        size_t nops;
        if (faults_)
            nops = 1 + r.below(r.chance(1, 2) ? 6 : 16);
        else
            nops = r.chance(1, 2) ? r.range(3, 12) : r.range(3, 40);
        if (tier == Tier::Thorough && r.chance(1, 8)) nops += r.below(40);
        // swarm: per-run operation weights
        enum { ADD, REMOVE, ADDR, REMR, CLEAR, CLONE, ADDMANY, BIN, RELOAD, LAND, NKINDS };
        uint32_t w[NKINDS] = {6, 5, 6, 3, 1, 2, 4, 5, 3, 5};
        for (auto &x : w)
            if (r.chance(1, 4)) x = r.chance(1, 2) ? 0 : x * 3;
        w[ADD] += 1;
        uint32_t total = 0;
        for (auto x : w) total += x;
        bool prev_big = false;
        int prev_special = -1; // slot that was just cleared / cloned into / reloaded
        int pending_perturb = 0, perturb_obj = 0, perturb_src = 0;
        bool perturb_swap = false;
        int cleared_run = -1;
        int pair_pending = -1, pair_obj = -1; // two neighbouring run containers to be combined next
        std::vector<size_t> rare_targets; // operations on rarely reached allocation paths
        for (size_t i = 0; i < nops; i++) {
            uint32_t t = (uint32_t)r.below(total), k = 0;
            while (t >= w[k]) t -= w[k++];
            // place work right after an operation that moved a lot of state
            if (prev_big && r.chance(1, 2)) k = r.chance(1, 2) ? ADD : REMOVE;
            // a freshly cleared / cloned / reloaded object is used as an operand straight away
            if (prev_special >= 0 && r.chance(2, 3)) k = r.chance(3, 4) ? BIN : (r.chance(1, 2) ? RELOAD : CLONE);
            if (pair_pending >= 0) {
                if (r.chance(3, 4)) k = BIN;
                else pair_pending = -1;
            }
            prev_big = false;
            Op op;
            int o = (int)r.below(r.chance(2, 3) ? 1 : NOBJ);
            int next_special = -1;
            int force_clear = -1;
            for (int t = 0; t < NOBJ; t++)
                if (g.is_run[t] == 1 && g.m[t].any() && r.chance(1, 8)) force_clear = t;
            if (force_clear >= 0 && pending_perturb == 0 && pair_pending < 0) {
                k = CLEAR;
                o = force_clear;
            }
            if (cleared_run >= 0 && r.chance(2, 3)) {
                // a cleared run container (still RUNS, no runs) is converted by its next Add/Remove
                k = r.chance(2, 3) ? ADD : REMOVE;
                o = cleared_run;
                rare_targets.push_back(p.ops.size());
            }
            cleared_run = -1;
            if (pending_perturb > 0) {
                // remove a member / add a non-member of the clone, biased to its upper half
                pending_perturb--;
                o = perturb_obj;
                bool rem = r.chance(1, 2) && g.m[o].any();
                if (perturb_swap) rem = pending_perturb == 1 && g.m[o].any(); // remove one, then add one: equal sizes
                uint32_t v;
                if (rem) {
                    v = pick_member(g, o);
                } else {
                    v = pick_member(g, o);
                    for (int t = 0; t < 40 && g.m[o][v]; t++) v = (v + 1 + (uint32_t)r.below(3)) & 0xffff;
                }
                op.kind = rem ? "remove" : "add";
                op.set("obj", o);
                op.set("v", v);
                g.m[o].set(v, !rem);
                p.ops.push_back(op);
                if (pending_perturb == 0) { // now combine clone and origin
                    Op b;
                    static const char *names[] = {"or", "and", "xor", "andnot"};
                    int which = (int)r.below(4);
                    b.kind = names[which];
                    int dst = (int)r.below(NOBJ);
                    bool swap = r.chance(1, 2);
                    int a = swap ? perturb_src : perturb_obj, bb = swap ? perturb_obj : perturb_src;
                    b.set("dst", dst);
                    b.set("a", a);
                    b.set("b", bb);
                    Set res;
                    switch (which) {
                    case 0: res = g.m[a] | g.m[bb]; break;
                    case 1: res = g.m[a] & g.m[bb]; break;
                    case 2: res = g.m[a] ^ g.m[bb]; break;
                    default: res = g.m[a] & ~g.m[bb]; break;
                    }
                    g.m[dst] = res;
                    p.ops.push_back(b);
                    i++;
                }
                continue;
            }
            switch (k) {
            case ADD: {
                op.kind = "add";
                op.set("obj", o);
                uint32_t v = gen_val(g);
                op.set("v", v);
                g.m[o].set(v);
                break;
            }
            case REMOVE: {
                op.kind = "remove";
                op.set("obj", o);
                uint32_t v = r.chance(2, 3) ? pick_member(g, o) : gen_val(g);
                op.set("v", v);
                g.m[o].reset(v);
                break;
            }
            case ADDR:
            case REMR: {
                op.kind = k == ADDR ? "add_range" : "remove_range";
                if (k == ADDR && r.chance(1, 3)) // an empty slot becomes a run container
                    for (int t = 0; t < NOBJ; t++)
                        if (g.m[t].none()) o = t;
                op.set("obj", o);
                uint32_t mn, mx;
                gen_range(g, mn, mx);
                if (k == ADDR && g.m[o].none() && mx > mn && mx - mn <= 4096 && r.chance(1, 2)) {
                    // long enough for the run shortcut, keeping one end where it was
                    uint32_t len = (uint32_t)r.range(4097, 9000);
                    if (r.chance(1, 2) && mn + len <= 65535) mx = mn + len;
                    else if (mx >= len) mn = mx - len;
                    else mx = mn + len <= 65535 ? mn + len : 65535;
                }
                if (g.is_run[o] == 1 && g.m[o].any() && r.chance(1, 2)) {
                    // a range right next to the run this container already holds: overlapping its
                    // end by one, touching it, one value apart, two apart (before or after it)
                    uint32_t lo = (uint32_t)g.m[o]._Find_first(), hi = lo;
                    while (hi + 1 < 65536 && g.m[o][hi + 1]) hi++;
                    long gap = (long)r.below(4) - 1;
                    uint32_t len = r.chance(1, 2) ? (uint32_t)r.range(1, 600) : (uint32_t)r.range(1, 9000);
                    if (r.chance(1, 2)) {
                        long st = (long)hi + 1 + gap;
                        if (st >= 0 && st < 65535) {
                            mn = (uint32_t)st;
                            mx = std::min<uint32_t>(65535, mn + len);
                        }
                    } else {
                        long en = (long)lo - gap;
                        if (en > 0 && en <= 65535) {
                            mx = (uint32_t)en;
                            mn = mx > len ? mx - len : 0;
                        }
                    }
                } else if (k == ADDR && g.m[o].none() && r.chance(1, 2)) {
                    // a second run container right next to a live one: touching it, one value
                    // apart, two apart, or overlapping its end by one - then the two are combined
                    int other = -1;
                    for (int t = 0; t < NOBJ; t++)
                        if (t != o && g.is_run[t] == 1 && g.m[t].any() && (other < 0 || r.chance(1, 2))) other = t;
                    if (other >= 0) {
                        uint32_t lo = (uint32_t)g.m[other]._Find_first(), hi = lo;
                        while (hi + 1 < 65536 && g.m[other][hi + 1]) hi++; // its first run is [lo, hi]
                        long gap = (long)r.below(4) - 1;                    // -1 overlap, 0 touching, 1, 2
                        uint32_t len = r.chance(2, 3) ? (uint32_t)r.range(4097, 9000) : (uint32_t)r.range(1, 4096);
                        if (r.chance(1, 2)) { // after it
                            long st = (long)hi + 1 + gap;
                            if (st >= 0 && st < 65535) {
                                mn = (uint32_t)st;
                                mx = std::min<uint32_t>(65535, mn + len);
                                pair_pending = other;
                            }
                        } else { // before it
                            long en = (long)lo - gap; // exclusive end
                            if (en > 0 && en <= 65535) {
                                mx = (uint32_t)en;
                                mn = mx > len ? mx - len : 0;
                                pair_pending = other;
                            }
                        }
                        if (pair_pending >= 0) pair_obj = o;
                    }
                }
                if (k == ADDR && g.m[o].none() && mx > mn && mx - mn > 4096) g.is_run[o] = 2; // set below to 1

                op.set("min", mn);
                op.set("max", mx);
                for (uint32_t v = mn; v < mx; v++) g.m[o].set(v, k == ADDR);
                prev_big = true;
                break;
            }
            case CLEAR:
                op.kind = "clear";
                op.set("obj", o);
                g.m[o].reset();
                next_special = o;
                if (g.is_run[o] == 1) cleared_run = o;
                break;
            case CLONE: {
                op.kind = "clone";
                int src = (int)r.below(NOBJ);
                if (prev_special >= 0 && r.chance(1, 2)) src = prev_special;
                op.set("dst", o);
                op.set("src", src);
                g.m[o] = g.m[src];
                next_special = o;
                // perturb the clone a little, then combine it with its origin: operands that
                // share most of their members
                if (r.chance(1, 2) && i + 4 < nops) {
                    pending_perturb = (int)r.range(1, 3), perturb_obj = o, perturb_src = src;
                    perturb_swap = r.chance(1, 3);
                    if (perturb_swap) pending_perturb = 2;
                }
                break;
            }
            case ADDMANY: {
                op.kind = "add_many";
                op.set("obj", o);
                size_t n;
                switch (r.below(6)) {
                case 0: n = r.range(1, 8); break;
                case 1: n = r.range(4000, 5000); break;
                case 2: n = r.range(1, 5000); break;
                default: n = r.range(1, 200); break;
                }
                auto &vals = op.mkarr("values");
                int big = -1;
                for (int t = 0; t < NOBJ; t++)
                    if (t != o && g.m[t].count() >= 64 && (big < 0 || r.chance(1, 2))) big = t;
                if (big >= 0 && r.chance(1, 3)) {
                    // a small operand made of members of a much larger one and of their neighbours,
                    // combined with it next: searches that skip ahead in the larger operand
                    for (int t = 0; t < NOBJ; t++)
                        if (t != big && g.m[t].none()) o = t;
                    op.set("obj", o);
                    n = r.range(1, std::max<size_t>(1, std::min<size_t>(60, g.m[big].count() / 64)));
                    for (size_t j = 0; j < n; j++) {
                        uint32_t v = pick_member(g, big);
                        switch (r.below(6)) {
                        case 0: v = (v + 1) & 0xffff; break;
                        case 1: v = (v - 1) & 0xffff; break;
                        default: break;
                        }
                        vals.push_back(v);
                    }
                    if (pending_perturb == 0) pair_pending = big, pair_obj = o;
                } else if (r.chance(1, 4)) {
                    // a batch that is already sorted (bulk paths test for that), with or without repeated
                    // values, above / around / below what the object holds
                    n = r.chance(1, 2) ? r.range(8, 40) : r.range(2, 300);
                    uint32_t hi = 0;
                    for (size_t q = 65536; q-- > 0;)
                        if (g.m[o][q]) {
                            hi = (uint32_t)q;
                            break;
                        }
                    uint32_t cur = r.chance(1, 2) ? hi + (uint32_t)r.below(3) : gen_val(g);
                    bool dups = r.chance(2, 3);
                    for (size_t j = 0; j < n; j++) {
                        vals.push_back(cur & 0xffff);
                        uint32_t step = dups && r.chance(1, 4) ? 0 : 1 + (uint32_t)r.below(r.chance(1, 2) ? 2 : 60);
                        if (cur + step > 65535) step = 0;
                        cur += step;
                    }
                } else if (r.chance(1, 3)) { // strided sequence (possibly descending)
                    uint32_t start = gen_val(g), stride = (uint32_t)r.range(1, 40);
                    bool desc = r.chance(1, 3);
                    for (size_t j = 0; j < n; j++)
                        vals.push_back(desc ? (start - j * stride) & 0xffff : (start + j * stride) & 0xffff);
                } else
                    for (size_t j = 0; j < n; j++) vals.push_back(gen_val(g));
                for (auto v : vals) g.m[o].set(v);
                prev_big = n > 1000;
                break;
            }
            case BIN: {
                static const char *names[] = {"or", "and", "xor", "andnot"};
                int which = (int)r.below(4);
                op.kind = names[which];
                int a = (int)r.below(NOBJ), b = (int)r.below(NOBJ); // may alias
                if (prev_special >= 0) (r.chance(1, 2) ? a : b) = prev_special;
                if (pair_pending >= 0) {
                    bool sw = r.chance(1, 2);
                    a = sw ? pair_pending : pair_obj;
                    b = sw ? pair_obj : pair_pending;
                    pair_pending = -1;
                } else
                { // two run containers meet
                    int runs[NOBJ], nr = 0;
                    for (int t = 0; t < NOBJ; t++)
                        if (g.is_run[t] == 1) runs[nr++] = t;
                    if (nr >= 2 && r.chance(2, 3)) {
                        a = runs[r.below((uint64_t)nr)];
                        do b = runs[r.below((uint64_t)nr)];
                        while (b == a);
                    } else if (nr >= 1 && r.chance(1, 4))
                        (r.chance(1, 2) ? a : b) = runs[r.below((uint64_t)nr)];
                }
                op.set("dst", o);
                op.set("a", a);
                op.set("b", b);
                Set res;
                switch (which) {
                case 0: res = g.m[a] | g.m[b]; break;
                case 1: res = g.m[a] & g.m[b]; break;
                case 2: res = g.m[a] ^ g.m[b]; break;
                default: res = g.m[a] & ~g.m[b]; break;
                }
                g.m[o] = res;
                break;
            }
            case RELOAD:
                if (prev_special >= 0 && r.chance(1, 2)) o = prev_special;
                op.kind = "reload";
                op.set("obj", o);
                next_special = o;
                break;
            case LAND: {
                op.kind = "land";
                op.set("obj", o);
                static const uint32_t targets[] = {0, 1, 4095, 4096, 4097, 4096, 4097, 4098};
                uint32_t n = r.pick(targets);
                uint32_t stride = (uint32_t)(r.below(2048) * 2 + 1);
                if (r.chance(1, 2)) stride = 1;
                uint32_t start = gen_val(g);
                op.set("n", n);
                op.set("stride", stride);
                op.set("start", start);
                land_model(g.m[o], n, stride, start, nullptr);
                prev_big = true;
                break;
            }
            }
            p.ops.push_back(op);
            prev_special = next_special;
            for (int t = 0; t < NOBJ; t++) {
                if (g.is_run[t] == 2) g.is_run[t] = 1;
                else if (g.is_run[t] == 1 && (op.u("obj", 99) == (uint64_t)t || op.u("dst", 99) == (uint64_t)t) && op.kind != "reload" && op.kind != "clear")
                    g.is_run[t] = 0;
            }
        }
        if (faults_) {
            // one operation gets every k; sometimes further ops get a single fault
            size_t target = r.chance(2, 3) ? p.ops.size() - 1 : r.below(p.ops.size());
            if (!rare_targets.empty() && r.chance(3, 4)) target = rare_targets[r.below(rare_targets.size())];
            if (target >= p.ops.size()) target = p.ops.size() - 1;
            p.ops[target].sets("fail", "all");
            if (r.chance(1, 4))
                for (size_t i = 0; i < p.ops.size(); i++)
                    if (i != target && r.chance(1, 4)) p.ops[i].set("fail", r.range(1, 3));
        }
        return p;
    }

    // the list of single add/remove steps of "land at cardinality n"
    static void land_model(Set &m, uint32_t n, uint32_t stride, uint32_t start,
                           std::vector<std::pair<bool, uint16_t>> *steps) {
        size_t c = m.count();
        uint32_t v = start & 0xffff;
        stride |= 1; // odd stride visits every value
        for (uint32_t i = 0; i < 65536 && c != n; i++, v = (v + stride) & 0xffff) {
            if (c < n && !m[v]) {
                m.set(v);
                c++;
                if (steps) steps->push_back({true, (uint16_t)v});
            } else if (c > n && m[v]) {
                m.reset(v);
                c--;
                if (steps) steps->push_back({false, (uint16_t)v});
            }
        }
    }

    // -------------------------------------------------------------- oracle
    // compares the object's answers with a set; returns false and fills f
    bool check_equals(varintBitmap *vb, const Set &m, const char *what, Fail &f, bool sweep,
                      const std::vector<uint32_t> &probes, bool export_too = true) {
        size_t mc = m.count();
        uint32_t card = varintBitmapCardinality(vb);
        if (card != mc) {
            f.cls = "cardinality";
            f.detail = std::string(what) + ": cardinality " + std::to_string(card) + " but the set has " +
                       std::to_string(mc) + " members";
            return false;
        }
        if (varintBitmapIsEmpty(vb) != (mc == 0)) {
            f.cls = "cardinality";
            f.detail = std::string(what) + ": IsEmpty disagrees with the set";
            return false;
        }
        // iteration through the iterator API, bounded
        varintBitmapIterator it = varintBitmapCreateIterator(vb);
        size_t n = 0;
        long prev = -1;
        size_t expect = m._Find_first();
        while (varintBitmapIteratorNext(&it)) {
            uint16_t v = it.currentValue;
            if ((long)v <= prev) {
                f.cls = "iteration";
                f.detail = std::string(what) + ": iteration not strictly ascending at position " +
                           std::to_string(n) + " (" + std::to_string(prev) + " then " + std::to_string(v) + ")";
                return false;
            }
            if (expect != v) {
                f.cls = "iteration";
                f.detail = std::string(what) + ": iteration yields " + std::to_string(v) + " at position " +
                           std::to_string(n) + ", the set's next member is " +
                           (expect >= 65536 ? std::string("none") : std::to_string(expect));
                return false;
            }
            expect = m._Find_next(expect);
            prev = v;
            if (++n > 65536) break;
        }
        if (n != mc) {
            f.cls = "iteration";
            f.detail = std::string(what) + ": iteration yields " + std::to_string(n) + " values, the set has " +
                       std::to_string(mc);
            return false;
        }
        // array export (same iteration underneath: checked where state changed shape, and at the end)
        if (card <= 65536 && (sweep || export_too)) {
            uint32_t cnt = varintBitmapToArray(vb, outbuf_);
            if (cnt != mc) {
                f.cls = "iteration";
                f.detail = std::string(what) + ": ToArray returns " + std::to_string(cnt) + ", the set has " +
                           std::to_string(mc);
                return false;
            }
            size_t e = m._Find_first();
            for (uint32_t i = 0; i < cnt; i++) {
                if (outbuf_[i] != e) {
                    f.cls = "iteration";
                    f.detail = std::string(what) + ": ToArray[" + std::to_string(i) + "]=" +
                               std::to_string(outbuf_[i]) + " expected " + std::to_string(e);
                    return false;
                }
                e = m._Find_next(e);
            }
        }
        for (uint32_t v : probes) {
            if (varintBitmapContains(vb, (uint16_t)v) != m[v]) {
                f.cls = "membership";
                f.detail = std::string(what) + ": Contains(" + std::to_string(v) + ") = " +
                           (m[v] ? "false" : "true") + " but the set says otherwise";
                return false;
            }
        }
        if (sweep) {
            stat("probe.full_sweep");
            for (uint32_t v = 0; v < 65536; v++)
                if (varintBitmapContains(vb, (uint16_t)v) != m[v]) {
                    f.cls = "membership";
                    f.detail = std::string(what) + ": Contains(" + std::to_string(v) + ") = " +
                               (m[v] ? "false" : "true") + " but the set says otherwise";
                    return false;
                }
        }
        return true;
    }

    // the object's own view as a set (for re-synchronising the model)
    bool self_set(varintBitmap *vb, Set &out, Fail &f) {
        out.reset();
        varintBitmapIterator it = varintBitmapCreateIterator(vb);
        size_t n = 0;
        while (varintBitmapIteratorNext(&it)) {
            out.set(it.currentValue);
            if (++n > 65536) {
                f.cls = "inconsistent-object";
                f.detail = "iteration does not terminate within 65536 values";
                return false;
            }
        }
        if (out.count() != n || varintBitmapCardinality(vb) != n) {
            f.cls = "inconsistent-object";
            f.detail = "cardinality " + std::to_string(varintBitmapCardinality(vb)) + " but iteration yields " +
                       std::to_string(n) + " values (" + std::to_string(out.count()) + " distinct)";
            return false;
        }
        return true;
    }

    // leak accounting: every live block must be owned by a pool object
    bool check_blocks(World &w, Fail &f) {
        size_t expect = 0;
        for (int i = 0; i < NOBJ; i++) {
            varintBitmap *vb = w.obj[i];
            if (!vb) continue;
            if (!alloc::is_live(vb)) {
                f.cls = "inconsistent-object";
                f.detail = "object struct is not a live block";
                return false;
            }
            expect++;
            void *c = nullptr;
            switch (vb->type) {
            case VARINT_BITMAP_ARRAY: c = vb->container.array.values; break;
            case VARINT_BITMAP_BITMAP: c = vb->container.bitmap.bits; break;
            case VARINT_BITMAP_RUNS: c = vb->container.runs.runs; break;
            }
            if (c) {
                if (!alloc::is_live(c)) {
                    f.cls = "inconsistent-object";
                    f.detail = "container storage is not a live block (dangling)";
                    return false;
                }
                expect++;
                // the bookkeeping must describe the block that is really there
                size_t have = alloc::size_of(c), need = 0;
                std::string what;
                switch (vb->type) {
                case VARINT_BITMAP_ARRAY:
                    need = (size_t)vb->container.array.capacity * sizeof(uint16_t);
                    what = "array capacity " + std::to_string(vb->container.array.capacity);
                    if (vb->cardinality > vb->container.array.capacity) {
                        f.cls = "inconsistent-object";
                        f.detail = "cardinality " + std::to_string(vb->cardinality) + " exceeds array capacity " +
                                   std::to_string(vb->container.array.capacity);
                        return false;
                    }
                    break;
                case VARINT_BITMAP_BITMAP:
                    need = VARINT_BITMAP_BITMAP_SIZE;
                    what = "bitmap container";
                    break;
                case VARINT_BITMAP_RUNS:
                    need = (size_t)vb->container.runs.capacity * 2 * sizeof(uint16_t);
                    what = "runs capacity " + std::to_string(vb->container.runs.capacity);
                    if (vb->container.runs.numRuns > vb->container.runs.capacity) {
                        f.cls = "inconsistent-object";
                        f.detail = "numRuns exceeds runs capacity";
                        return false;
                    }
                    break;
                }
                if (have < need) {
                    f.cls = "inconsistent-object";
                    f.detail = what + " needs " + std::to_string(need) + " bytes but the container block has " +
                               std::to_string(have);
                    return false;
                }
            }
        }
        // blocks of this run that no live object owns.  A library may keep a bounded number of
        // blocks for itself (a buffer pool): tolerated up to what it kept before this run plus what
        // the fault-free execution of the same history showed (w.allow; 0 for a library without caches)
        size_t unowned = 0;
        std::ostringstream o;
        for (auto &kv : alloc::live()) {
            bool owned = false;
            for (int i = 0; i < NOBJ; i++) {
                varintBitmap *vb = w.obj[i];
                if (!vb) continue;
                if (kv.first == vb || kv.first == (void *)vb->container.array.values) owned = true;
            }
            if (!owned) {
                unowned++;
                o << " [" << kv.second.size << "B from " << kv.second.site << "]";
            }
        }
        (void)expect;
        if (unowned > w.max_unowned) w.max_unowned = unowned;
        if (unowned > w.allow) {
            w.leak_total = unowned + alloc::kept_count();
            f.cls = "leak";
            f.detail = std::to_string(alloc::live_count()) + " live blocks, " + std::to_string(unowned) +
                       " of them owned by no live object (" + std::to_string(w.allow) + " tolerated):" + o.str();
            return false;
        }
        return true;
    }

    static std::vector<uint32_t> probes_for(const Op &op) {
        std::vector<uint32_t> p = {0, 1, 4095, 4096, 4097, 65534, 65535};
        auto near = [&](uint64_t v) {
            for (int d = -1; d <= 1; d++) {
                long x = (long)v + d;
                if (x >= 0 && x < 65536) p.push_back((uint32_t)x);
            }
        };
        if (op.has("v")) near(op.u("v"));
        if (op.has("min")) near(op.u("min"));
        if (op.has("max")) near(op.u("max"));
        if (op.has("start")) near(op.u("start"));
        std::string t = op_to_text(op, 8);
        uint64_t h = fnv1a(t.data(), t.size());
        for (int i = 0; i < 8; i++) {
            p.push_back((uint32_t)(splitmix64(h) & 0xffff));
        }
        return p;
    }

    // --------------------------------------------------------------- exec
    struct ExecCfg {
        bool check = true;        // run the oracle
        long fault_op = -1;       // index of the op whose "fail" is overridden
        uint64_t fault_k = 0;     // with this k
        bool honour_faults = true; // apply explicit fail=k attributes
        size_t allow_unowned = 0;  // blocks the library may keep for itself (from the fault-free execution)
    };
    struct ExecRes {
        Fail fail;              // empty cls = no violation
        long fail_op = -1;
        uint64_t requests_of_fault_op = 0;
        bool fault_fired = false;
        std::string fault_site;
        bool transitions = false, reloaded = false;
        size_t max_unowned = 0; // most blocks owned by no object at any check point (and at teardown)
        size_t leak_total = 0;  // see World
        Fail partial;           // first unreported-partial (C18 item 5), reported if nothing else fails
    };

    void free_world(World &w) {
        for (int i = 0; i < NOBJ; i++) {
            if (w.obj[i]) varintBitmapFree(w.obj[i]);
            w.obj[i] = nullptr;
        }
    }

    std::string state_of(World &w, const Op &op) {
        auto tn = [&](uint64_t i) -> std::string {
            if (i >= NOBJ || !w.obj[i]) return "NONE";
            return type_name(w.obj[i]->type);
        };
        if (op.has("a")) return tn(op.u("a")) + "," + tn(op.u("b"));
        if (op.has("src")) return tn(op.u("src"));
        return tn(op.u("obj"));
    }

    // A block that no object owns is a leak only if it accumulates: the same history is executed
    // again, and the suspicion stands if it arises again with more blocks outstanding in total
    // (this run's unowned ones plus those kept from earlier runs).  A library-side buffer pool
    // fills once and then stays the same size.
    ExecRes run_history_confirmed(const Plan &plan, const ExecCfg &cfg) {
        ExecRes r = run_history(plan, cfg);
        if (r.fail.cls != "leak") return r;
        ExecRes r2 = run_history(plan, cfg);
        if (r2.fail.cls == "leak" && r2.leak_total > r.leak_total) return r2;
        stat("leak_suspicion_not_confirmed_by_repetition");
        if (r2.fail.cls == "leak") r2.fail = Fail();
        return r2;
    }

    // Executes one history from scratch.  Returns the first violation.
    ExecRes run_history(const Plan &plan, const ExecCfg &cfg) {
        ExecRes res;
        World w;
        alloc::reset_run();
        w.allow = cfg.allow_unowned;
        alloc::set_fill(alloc::Fill::Garbage, plan.seed ^ 0xb17b17);
        for (int i = 0; i < NOBJ; i++) {
            w.obj[i] = varintBitmapCreate();
            if (!w.obj[i]) {
                res.fail = {"crash", "create", "varintBitmapCreate returned NULL without a fault"};
                return res;
            }
        }
        std::vector<uint8_t> encbuf;
        bool any_fired = false;
        for (size_t oi = 0; oi < plan.ops.size(); oi++) {
            const Op &op = plan.ops[oi];
            const std::string &k = op.kind;
            uint64_t fail_k = 0;
            if (faults_) {
                if ((long)oi == cfg.fault_op)
                    fail_k = cfg.fault_k;
                else if (cfg.honour_faults && op.has("fail") && !op.is_all("fail"))
                    fail_k = op.u("fail");
            }
            int o = (int)(op.u("obj", op.u("dst", 0)) % NOBJ);
            varintBitmap *&vb = w.obj[o];
            Set &m = *w.model[o];
            std::string state = state_of(w, op);
            std::string opkey = "op=" + k + " state=" + state;
            ctx_note(opkey); // the allocator appends " site=..." when a fault fires
            bool checking = cfg.check || any_fired;
            int type_before = vb ? (int)vb->type : -1;
            g_log.str(k.c_str());
            Fail f;
            bool faulted = fail_k != 0;
            alloc::CallInfo info;
            auto begin = [&]() { alloc::begin_call(fail_k); };
            auto end = [&]() {
                info = alloc::end_call();
                if ((long)oi == cfg.fault_op) {
                    res.requests_of_fault_op = info.requests;
                    res.fault_fired = info.fault_fired;
                    res.fault_site = info.fault_site;
                }
                if (info.fault_fired) {
                    stat("fault.fail-alloc.fired");
                    any_fired = true;
                }
                g_log.u64(info.requests);
            };
            auto failed = [&](const std::string &cls, const std::string &detail) {
                res.fail.cls = cls;
                res.fail.key = opkey + (info.fault_fired ? " site=" + info.fault_site : "");
                res.fail.detail = "op " + std::to_string(oi + 1) + " (" + op_to_text(op, 6) + "), container " +
                                  state + ": " + detail;
                res.fail_op = (long)oi;
            };
            bool fired = false; // set after end()
            Set before = m;

            if (k == "add" || k == "remove") {
                uint16_t v = (uint16_t)op.u("v");
                bool is_add = k == "add";
                begin();
                bool ret = is_add ? varintBitmapAdd(vb, v) : varintBitmapRemove(vb, v);
                end();
                fired = info.fault_fired;
                g_log.u64(ret);
                Set after = before;
                after.set(v, is_add);
                bool changed = after != before;
                if (!fired) {
                    if (checking && ret != changed) {
                        failed("return-value", std::string(is_add ? "Add" : "Remove") + "(" + std::to_string(v) +
                                                   ") returned " + (ret ? "true" : "false") + " but the set " +
                                                   (changed ? "changed" : "did not change"));
                        break;
                    }
                    m = after;
                } else {
                    // failure indication (false, set unchanged) or fully applied
                    m = ret ? after : before;
                    if (ret && !changed) {
                        failed("wrong-success", "returned true although the value was already " +
                                                    std::string(is_add ? "present" : "absent"));
                        break;
                    }
                }
            } else if (k == "add_range" || k == "remove_range" || k == "add_many" || k == "clear" ||
                       k == "land") {
                Set target = before;
                Set touched; // R: values the operation may add/remove
                std::vector<std::pair<bool, uint16_t>> steps;
                if (k == "add_range" || k == "remove_range") {
                    uint32_t mn = (uint32_t)op.u("min") & 0xffff, mx = (uint32_t)op.u("max") & 0xffff;
                    for (uint32_t v = mn; v < mx; v++) {
                        target.set(v, k == "add_range");
                        touched.set(v);
                    }
                    begin();
                    if (k == "add_range")
                        varintBitmapAddRange(vb, (uint16_t)mn, (uint16_t)mx);
                    else
                        varintBitmapRemoveRange(vb, (uint16_t)mn, (uint16_t)mx);
                    end();
                } else if (k == "add_many") {
                    const std::vector<uint64_t> *vals = op.arr("values");
                    std::vector<uint16_t> v16;
                    if (vals)
                        for (auto v : *vals) {
                            v16.push_back((uint16_t)v);
                            target.set(v & 0xffff);
                            touched.set(v & 0xffff);
                        }
                    // exact-size heap copy of the input
                    uint16_t *in = (uint16_t *)malloc(v16.size() * 2 + 1);
                    memcpy(in, v16.data(), v16.size() * 2);
                    begin();
                    varintBitmapAddMany(vb, in, (uint32_t)v16.size());
                    end();
                    free(in);
                } else if (k == "clear") {
                    target.reset();
                    touched.set();
                    begin();
                    varintBitmapClear(vb);
                    end();
                } else { // land: a macro of single adds/removes, each with its return value checked
                    land_model(target, (uint32_t)op.u("n"), (uint32_t)op.u("stride"), (uint32_t)op.u("start"),
                               &steps);
                    begin();
                    bool bad = false;
                    Set cur = before;
                    for (auto &s : steps) {
                        bool ret = s.first ? varintBitmapAdd(vb, s.second) : varintBitmapRemove(vb, s.second);
                        touched.set(s.second);
                        if (ret) cur.set(s.second, s.first);
                        if (!ret && !alloc::current().fault_fired && checking) {
                            end();
                            failed("return-value", std::string(s.first ? "Add" : "Remove") + "(" +
                                                       std::to_string(s.second) +
                                                       ") returned false for a value that was " +
                                                       (s.first ? "absent" : "present"));
                            bad = true;
                            break;
                        }
                    }
                    if (bad) break;
                    end();
                    if (info.fault_fired) target = cur; // single steps reported their own outcome
                }
                fired = info.fault_fired;
                if (!fired) {
                    m = target;
                } else {
                    // C18 item 5: void mutators cannot report; S must stay between before and target
                    Set now;
                    Fail sf;
                    if (!self_set(vb, now, sf)) {
                        failed(sf.cls, sf.detail);
                        break;
                    }
                    bool adding = (k == "add_range" || k == "add_many");
                    bool within = true;
                    if (k == "land") {
                        within = now == target;
                    } else if (adding) {
                        within = (before & ~now).none() && (now & ~(before | touched)).none();
                    } else {
                        within = (now & ~before).none() && ((before & ~now) & ~touched).none();
                    }
                    if (!within) {
                        failed("wrong-success",
                               "after the failed allocation the set is neither the old nor the new value: has " +
                                   std::to_string(now.count()) + " members, before " +
                                   std::to_string(before.count()) + ", fully applied " +
                                   std::to_string(target.count()));
                        break;
                    }
                    if (now != target && res.partial.cls.empty()) {
                        // recorded, the model is re-synchronised and the history goes on,
                        // so that this class does not mask later ones
                        stat("c18.unreported-partial");
                        Fail keep = res.fail;
                        failed("unreported-partial",
                               "void mutator applied only part of its effect after a failed allocation and cannot "
                               "report it: " +
                                   std::to_string(now.count()) + " members, fully applied would be " +
                                   std::to_string(target.count()));
                        res.partial = res.fail;
                        res.fail = keep;
                        res.fail_op = -1;
                    }
                    m = now;
                }
            } else if (k == "clone" || k == "or" || k == "and" || k == "xor" || k == "andnot") {
                int a = (int)(op.u(k == "clone" ? "src" : "a") % NOBJ), b = (int)(op.u("b") % NOBJ);
                Set ma = *w.model[a], mb = *w.model[b], expect;
                if (k == "clone") expect = ma;
                else if (k == "or") expect = ma | mb;
                else if (k == "and") expect = ma & mb;
                else if (k == "xor") expect = ma ^ mb;
                else expect = ma & ~mb;
                begin();
                varintBitmap *r = nullptr;
                if (k == "clone") r = varintBitmapClone(w.obj[a]);
                else if (k == "or") r = varintBitmapOr(w.obj[a], w.obj[b]);
                else if (k == "and") r = varintBitmapAnd(w.obj[a], w.obj[b]);
                else if (k == "xor") r = varintBitmapXor(w.obj[a], w.obj[b]);
                else r = varintBitmapAndNot(w.obj[a], w.obj[b]);
                end();
                fired = info.fault_fired;
                g_log.u64(r != nullptr);
                if (!r) {
                    if (!fired) {
                        failed("return-value", "returned NULL without any allocation failure");
                        break;
                    }
                    stat("c18.reported-failure");
                    // failure indication: nothing else may have changed; dst keeps its old object
                } else {
                    // operands unchanged (checked before dst is replaced, dst may alias an operand)
                    if (checking || fired) {
                        Fail of;
                        if (!check_equals(w.obj[a], ma, "first operand after the operation", of, false, {}) ||
                            (k != "clone" &&
                             !check_equals(w.obj[b], mb, "second operand after the operation", of, false, {}))) {
                            failed("operand-modified", of.detail);
                            break;
                        }
                    }
                    varintBitmapFree(vb);
                    vb = r;
                    m = expect;
                    if (fired) {
                        Fail rf;
                        if (!check_equals(vb, m, "result", rf, true, {})) {
                            failed("wrong-success", "allocation failed inside the call, yet it returned an object "
                                                    "that is not the correct result: " +
                                                        rf.detail);
                            break;
                        }
                    }
                }
            } else if (k == "reload") {
                size_t need = 16 + 8192 + 4 * 65536;
                if (encbuf.size() < need) encbuf.resize(need);
                int tb = (int)vb->type;
                size_t len = varintBitmapEncode(vb, encbuf.data());
                g_log.u64(len);
                // exact length known to the decoder; slack so that an over-read of a
                // valid encoding (a C14 matter) is not judged here
                uint8_t *copy = (uint8_t *)calloc(len + 64, 1);
                memcpy(copy, encbuf.data(), len);
                begin();
                varintBitmap *r = varintBitmapDecode(copy, len);
                end();
                free(copy);
                fired = info.fault_fired;
                if (!r) {
                    if (!fired) {
                        failed("return-value", "Decode of the object's own serialisation returned NULL");
                        break;
                    }
                    stat("c18.reported-failure");
                } else {
                    varintBitmapFree(vb);
                    vb = r;
                    res.reloaded = true;
                    stat(std::string("decode.") + type_name(tb));
                    if (fired) {
                        Fail rf;
                        if (!check_equals(vb, m, "decoded object", rf, true, {})) {
                            failed("wrong-success", rf.detail);
                            break;
                        }
                    }
                }
            } else if (k == "sweep") {
                // explicit full comparison
            } else {
                continue; // unknown op: ignored (keeps minimised plans executable)
            }

            if (info.bad_free) {
                failed("double-free", "free of a block that is not live, at " + info.bad_free_site);
                break;
            }
            int type_after = vb ? (int)vb->type : -1;
            bool trans = type_before != type_after;
            if (trans) {
                res.transitions = true;
                stat(std::string("trans.") + type_name(type_before) + ">" + type_name(type_after));
            }
            stat(std::string("op.") + k);
            stat(std::string("op_on.") + type_name(type_before));
            if (checking || faulted) {
                bool sweep = k == "sweep" || oi + 1 == plan.ops.size() || fired;
                bool near = trans || k == "reload"; // members and their neighbours
                Fail cf;
                std::vector<uint32_t> probes = probes_for(op);
                if (near && !sweep) {
                    stat("probe.member_neighbour_sweep");
                    size_t cnt = 0;
                    for (size_t v = m._Find_first(); v < 65536 && cnt < 20000; v = m._Find_next(v), cnt++) {
                        probes.push_back((uint32_t)v);
                        if (v > 0 && !m[v - 1]) probes.push_back((uint32_t)v - 1);
                        if (v < 65535 && !m[v + 1]) probes.push_back((uint32_t)v + 1);
                    }
                }
                if (!check_equals(vb, m, "after the operation", cf, sweep, probes, near || (oi % 3) == 0)) {
                    failed(fired ? "wrong-success" : cf.cls, cf.detail);
                    break;
                }
                if (faults_) {
                    Fail bf;
                    if (!check_blocks(w, bf)) {
                        if (fired || faulted) {
                            failed(bf.cls, bf.detail);
                            break;
                        } else if (checking) {
                            // a leak without any injected fault is not what C18 states
                            res.fail.cls = "skip";
                            res.fail.detail = "baseline leaks without fault: " + bf.detail;
                            res.fail_op = (long)oi;
                            break;
                        }
                    }
                }
            }
            g_log.u64(varintBitmapCardinality(vb));
        }
        // a violating object is abandoned, not walked - except after a suspected leak, where the objects
        // are sound and only what they do not own must stay behind (the repetition test counts it)
        if (res.fail.cls.empty() || res.fail.cls == "leak") free_world(w);
        res.max_unowned = std::max(w.max_unowned, res.fail.cls.empty() ? alloc::live_count() : (size_t)0);
        res.leak_total = w.leak_total;
        if (faults_ && res.fail.cls.empty() && alloc::live_count() > w.allow) {
            res.leak_total = alloc::live_count() + alloc::kept_count();
            res.fail.cls = "leak";
            res.fail.key = "teardown";
            res.fail.detail = std::to_string(alloc::live_count()) + " blocks live after all objects were freed (" +
                              std::to_string(w.allow) + " tolerated)";
        }
        alloc::reset_run();
        if (res.fail.cls.empty() && !res.partial.cls.empty()) res.fail = res.partial;
        return res;
    }

    Outcome execute(const Plan &plan) override {
        if (!outbuf_) outbuf_ = (uint16_t *)malloc(OUTCAP * sizeof(uint16_t));
        Outcome out;
        if (!faults_) {
            ExecCfg cfg;
            ExecRes r = run_history(plan, cfg);
            out.cases = 1;
            out.hash = g_log.h;
            if (!r.fail.cls.empty()) {
                out.cls = r.fail.cls;
                out.key = r.fail.key;
                out.detail = r.fail.detail;
            }
            if (r.transitions || r.reloaded) out.nontrivial.push_back(plan.digest());
            return out;
        }
        // C18: find the op with fail=all
        long target = -1;
        for (size_t i = 0; i < plan.ops.size(); i++)
            if (plan.ops[i].is_all("fail")) target = (long)i;
        if (target < 0) {
            // explicit faults only: one execution (after a fault-free one that shows what the
            // library keeps for itself)
            ExecCfg cfg;
            {
                ExecCfg b;
                b.honour_faults = false;
                b.allow_unowned = 1000;
                ExecRes rb = run_history(plan, b);
                cfg.allow_unowned = rb.max_unowned;
                g_log.reset();
            }
            ExecRes r = run_history_confirmed(plan, cfg);
            out.cases = 1;
            out.hash = g_log.h;
            if (!r.fail.cls.empty()) {
                out.cls = r.fail.cls;
                out.key = r.fail.key;
                out.detail = r.fail.detail;
            }
            out.nontrivial.push_back(plan.digest());
            return out;
        }
        // baseline: fault-free, fully checked
        size_t baseline_unowned = 0;
        {
            ExecCfg cfg;
            cfg.honour_faults = false;
            cfg.allow_unowned = 1000; // the fault-free execution defines what the library keeps for itself
            ExecRes r = run_history(plan, cfg);
            baseline_unowned = r.max_unowned;
            if (baseline_unowned) stat("baseline_keeps_blocks_for_itself");
            out.cases++;
            if (!r.fail.cls.empty()) {
                stat("baseline-invalid");
                out.cls = "skip";
                out.detail = "baseline (fault-free) execution already deviates: " + r.fail.detail;
                out.hash = g_log.h;
                return out;
            }
        }
        for (uint64_t k = 1; k < 10000; k++) {
            ctx_bind((size_t)target, "fail", k);
            ExecCfg cfg;
            cfg.check = false; // the prefix was checked by the baseline
            cfg.fault_op = target;
            cfg.fault_k = k;
            cfg.allow_unowned = baseline_unowned;
            ExecRes r = run_history_confirmed(plan, cfg);
            out.cases++;
            if (!r.fail.cls.empty() && r.fail.cls != "skip") {
                bool partial = r.fail.cls == "unreported-partial";
                if (!partial || out.cls == "ok") {
                    out.cls = r.fail.cls;
                    out.key = r.fail.key;
                    out.detail = r.fail.detail;
                    out.binds.clear();
                    out.binds.push_back({(size_t)target, "fail", k});
                }
                if (!partial) break; // an unreported-partial does not end the enumeration
            }
            if (!r.fault_fired) break; // request k does not exist: enumeration complete
            stat("c18.cases_fault_fired");
            uint64_t d = plan.digest() ^ (k * 0x9e3779b97f4a7c15ULL);
            out.nontrivial.push_back(d);
        }
        out.hash = g_log.h;
        return out;
    }

    std::string report_json() override { return faults_ ? alloc::sites_json() : ""; }
};

struct Reg {
    Reg() {
        register_engine(new BitmapHist(false));
        register_engine(new BitmapHist(true));
    }
} reg;
} // namespace
