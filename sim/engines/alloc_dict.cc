// E-ALLOC / E-HIST for the long-lived dictionary object (C18): histories of
// Create / Build / Find / Lookup / EncodeWithDict / Free in which one
// operation gets "the k-th allocation request fails" for every k.
#include "../core/gen.h"
#include "../core/sim.h"
#include "../seams/alloc.h"
#include <algorithm>
#include <cstring>
#include <sstream>

extern "C" {
#include "varintDict.h"
}

namespace {
using namespace sim;

class AllocDict : public Engine {
  public:
    const char *name() const override { return "alloc.dict"; }
    const char *property() const override { return "C18"; }
    uint64_t tag() const override { return 0x1802; }
    std::vector<std::string> droppable_args() const override { return {"fail"}; }
    std::vector<std::string> fixed_args() const override { return {"fail"}; }

    Plan generate(uint64_t seed, Tier tier) override {
        Rng r(seed);
        Plan p;
        p.property = property();
        p.engine = name();
        p.seed = seed;
        size_t nops = r.range(2, 12);
        std::vector<uint64_t> last; // values of the last build, to aim finds/encodes
        for (size_t i = 0; i < nops; i++) {
            Op op;
            switch (i == 0 ? 0 : r.below(10)) {
            case 0: op.kind = "create"; break;
            case 1:
            case 2:
            case 3: {
                op.kind = "build";
                size_t n = gen_length(r, tier);
                int cls = r.chance(1, 2) ? ARR_LOWCARD : (int)r.below(ARR_NCLASSES);
                if (r.chance(1, 4)) n = r.range(17, 300); // more than the initial capacity of 16 uniques
                if (r.chance(1, 8)) { // crossing an index-width class (257+ unique values)
                    n = r.range(257, 420);
                    cls = ARR_FULL64;
                }
                last = gen_array(r, n, r.chance(1, 3) ? ARR_FULL64 : cls);
                op.mkarr("values") = last;
                break;
            }
            case 4:
                op.kind = "find";
                op.set("v", (!last.empty() && r.chance(2, 3)) ? last[r.below(last.size())] : magnitude(r));
                break;
            case 5:
                op.kind = "lookup";
                op.set("idx", r.below(last.size() + 3));
                break;
            case 6:
            case 7: {
                op.kind = "encode";
                size_t n = r.range(1, 60);
                auto &v = op.mkarr("values");
                for (size_t j = 0; j < n; j++)
                    v.push_back((!last.empty() && !r.chance(1, 30)) ? last[r.below(last.size())] : magnitude(r));
                break;
            }
            case 8:
                op.kind = "size";
                op.set("count", r.range(1, 1000));
                break;
            default: op.kind = "free"; break;
            }
            p.ops.push_back(op);
        }
        // make sure there is an allocating operation to attach the enumeration to
        std::vector<size_t> allocating;
        for (size_t i = 0; i < p.ops.size(); i++)
            if (p.ops[i].kind == "build" || p.ops[i].kind == "create") allocating.push_back(i);
        if (allocating.empty()) {
            Op op;
            op.kind = "build";
            op.mkarr("values") = gen_array(r, r.range(1, 200), ARR_FULL64);
            p.ops.insert(p.ops.begin(), op);
            allocating.push_back(0);
        }
        p.ops[allocating[r.below(allocating.size())]].sets("fail", "all");
        if (r.chance(1, 4))
            for (auto i : allocating)
                if (!p.ops[i].has("fail") && r.chance(1, 3)) p.ops[i].set("fail", r.range(1, 2));
        return p;
    }

    struct Res {
        std::string cls, key, detail;
        bool fault_fired = false;
        std::string site;
        size_t leak_total = 0; // at a suspected leak: blocks nobody owns + blocks kept from earlier runs
    };

    // internal consistency of the object, and its contents
    static bool consistent(const varintDict *d, std::vector<uint64_t> &contents, std::string &why) {
        contents.clear();
        if (!alloc::is_live(d)) {
            why = "dictionary struct is not a live block";
            return false;
        }
        if (d->values && !alloc::is_live(d->values)) {
            why = "values array is not a live block (dangling)";
            return false;
        }
        if (d->size > d->capacity) {
            why = "size " + std::to_string(d->size) + " exceeds capacity " + std::to_string(d->capacity);
            return false;
        }
        if (d->values && alloc::size_of(d->values) < (size_t)d->capacity * 8) {
            why = "capacity " + std::to_string(d->capacity) + " exceeds the allocated block of " +
                  std::to_string(alloc::size_of(d->values)) + " bytes";
            return false;
        }
        for (uint32_t i = 0; i < d->size; i++) {
            uint64_t v = varintDictLookup(d, i);
            if (i && v <= contents.back()) {
                why = "entries not strictly ascending at index " + std::to_string(i);
                return false;
            }
            contents.push_back(v);
            if (varintDictFind(d, v) != (int32_t)i) {
                why = "Find(Lookup(" + std::to_string(i) + ")) != " + std::to_string(i);
                return false;
            }
        }
        if (d->size > 0) {
            uint64_t maxIndex = d->size - 1;
            unsigned need = 1;
            while (need < 8 && (maxIndex >> (8 * need))) need++;
            if ((unsigned)d->indexWidth != need) {
                why = "indexWidth " + std::to_string((unsigned)d->indexWidth) + " does not fit size " +
                      std::to_string(d->size);
                return false;
            }
        }
        return true;
    }

    // allow_: blocks the library may keep for itself beyond the dictionary's own (what it kept
    // before this run plus what the fault-free execution showed; 0 for a library without caches)
    size_t allow_extra_ = 0, seen_extra_ = 0;
    Res run(const Plan &plan, long fault_op, uint64_t fault_k, bool check, bool honour) {
        Res res;
        alloc::reset_run();
        size_t allow = allow_extra_;
        seen_extra_ = 0;
        alloc::set_fill(alloc::Fill::Garbage, plan.seed ^ 0xd1c7);
        varintDict *d = nullptr;
        std::vector<uint64_t> model; // sorted unique contents
        bool any_fired = false;
        for (size_t oi = 0; oi < plan.ops.size(); oi++) {
            const Op &op = plan.ops[oi];
            uint64_t k = 0;
            if ((long)oi == fault_op)
                k = fault_k;
            else if (honour && op.has("fail") && !op.is_all("fail"))
                k = op.u("fail");
            std::string base = "op=dict." + op.kind;
            ctx_note(base);
            g_log.str(op.kind.c_str());
            alloc::CallInfo info;
            bool checking = check || any_fired;
            auto failed = [&](const std::string &cls, const std::string &detail) {
                res.cls = cls;
                res.key = base + (info.fault_fired ? " site=" + info.fault_site : "");
                res.detail = "op " + std::to_string(oi + 1) + " (" + op_to_text(op, 6) + "): " + detail;
            };
            if (op.kind == "create") {
                if (d) continue;
                alloc::begin_call(k);
                d = varintDictCreate();
                info = alloc::end_call();
                model.clear();
                if (!d && !info.fault_fired) {
                    failed("return-value", "Create returned NULL without a fault");
                    break;
                }
            } else if (op.kind == "free") {
                if (!d) continue;
                varintDictFree(d);
                d = nullptr;
                model.clear();
            } else if (!d) {
                continue;
            } else if (op.kind == "build") {
                const std::vector<uint64_t> *vals = op.arr("values");
                if (!vals || vals->empty()) continue;
                uint64_t *in = (uint64_t *)malloc(vals->size() * 8);
                memcpy(in, vals->data(), vals->size() * 8);
                alloc::begin_call(k);
                int rc = varintDictBuild(d, in, vals->size());
                info = alloc::end_call();
                free(in);
                g_log.u64((uint64_t)rc);
                std::vector<uint64_t> want(*vals);
                std::sort(want.begin(), want.end());
                want.erase(std::unique(want.begin(), want.end()), want.end());
                if (rc == 0) {
                    model = want;
                } else if (!info.fault_fired) {
                    if (checking) {
                        failed("return-value", "Build returned " + std::to_string(rc) + " without a fault");
                        break;
                    }
                } else {
                    stat("c18.reported-failure");
                }
                if (checking || info.fault_fired) {
                    std::vector<uint64_t> have;
                    std::string why;
                    if (!consistent(d, have, why)) {
                        failed("inconsistent-object", "after Build returned " + std::to_string(rc) + ": " + why);
                        break;
                    }
                    if (rc == 0 && have != want) {
                        failed(info.fault_fired ? "wrong-success" : "return-value",
                               "Build reported success but the dictionary holds " + std::to_string(have.size()) +
                                   " entries, the input has " + std::to_string(want.size()) + " distinct values");
                        break;
                    }
                    if (rc != 0) model = have; // failure: any consistent state is accepted
                }
            } else if (op.kind == "find") {
                uint64_t v = op.u("v");
                int32_t idx = varintDictFind(d, v);
                auto it = std::lower_bound(model.begin(), model.end(), v);
                int32_t want = (it != model.end() && *it == v) ? (int32_t)(it - model.begin()) : -1;
                g_log.u64((uint64_t)idx);
                if (checking && idx != want) {
                    failed(any_fired ? "inconsistent-object" : "return-value",
                           "Find returned " + std::to_string(idx) + ", expected " + std::to_string(want));
                    break;
                }
            } else if (op.kind == "lookup") {
                uint32_t idx = (uint32_t)op.u("idx");
                uint64_t v = varintDictLookup(d, idx);
                uint64_t want = idx < model.size() ? model[idx] : 0;
                g_log.u64(v);
                if (checking && v != want) {
                    failed(any_fired ? "inconsistent-object" : "return-value", "Lookup(" + std::to_string(idx) +
                                                                                   ") returned " + std::to_string(v) +
                                                                                   ", expected " + std::to_string(want));
                    break;
                }
            } else if (op.kind == "encode") {
                const std::vector<uint64_t> *vals = op.arr("values");
                if (!vals || vals->empty() || model.empty()) continue;
                bool all_in = true;
                for (auto v : *vals)
                    if (!std::binary_search(model.begin(), model.end(), v)) all_in = false;
                size_t adv = varintDictEncodedSizeWithDict(d, vals->size());
                size_t total = adv + std::max<size_t>(4096, 2 * adv);
                uint8_t *dst = (uint8_t *)malloc(total);
                memset(dst, 0xCD, total);
                uint64_t *in = (uint64_t *)malloc(vals->size() * 8);
                memcpy(in, vals->data(), vals->size() * 8);
                size_t w = varintDictEncodeWithDict(dst, d, in, vals->size());
                free(in);
                g_log.u64(w);
                if (checking) {
                    if (all_in) {
                        size_t cnt = 0;
                        uint8_t *copy = (uint8_t *)malloc(w + 16);
                        memcpy(copy, dst, std::min(w, total));
                        memset(copy + w, 0, 16);
                        uint64_t *out = w ? varintDictDecode(copy, w, &cnt) : nullptr;
                        bool ok = out && cnt == vals->size() && memcmp(out, vals->data(), cnt * 8) == 0;
                        if (out) alloc::release(out);
                        free(copy);
                        if (!ok && any_fired) {
                            free(dst);
                            failed("inconsistent-object",
                                   "encoding with the dictionary after a failed allocation does not round-trip");
                            break;
                        }
                    } else if (w != 0 && any_fired) {
                        free(dst);
                        failed("inconsistent-object", "encoding a value that is not in the dictionary succeeded");
                        break;
                    }
                }
                free(dst);
            } else if (op.kind == "size") {
                g_log.u64(varintDictEncodedSizeWithDict(d, op.u("count")));
            } else {
                continue;
            }
            if (info.fault_fired) {
                any_fired = true;
                stat("fault.fail-alloc.fired");
                if ((long)oi == fault_op) {
                    res.fault_fired = true;
                    res.site = info.fault_site;
                }
            }
            if (info.bad_free) {
                failed("double-free", "free of a block that is not live at " + info.bad_free_site);
                break;
            }
            stat("op.dict." + op.kind);
            // block accounting: struct + values array, nothing else
            size_t expect = d ? (d->values ? 2 : 1) : 0;
            if (alloc::live_count() > expect && alloc::live_count() - expect > seen_extra_) seen_extra_ = alloc::live_count() - expect;
            if ((checking || k) && (alloc::live_count() < expect || alloc::live_count() - expect > allow)) {
                std::ostringstream o;
                o << alloc::live_count() << " live blocks, " << expect << " owned by the dictionary:";
                for (auto &kv : alloc::live())
                    if (kv.first != d && (!d || kv.first != d->values))
                        o << " [" << kv.second.size << "B from " << kv.second.site << "]";
                if (info.fault_fired || any_fired)
                    failed("leak", o.str());
                else {
                    res.cls = "skip";
                    res.detail = "baseline leaks without fault: " + o.str();
                }
                break;
            }
        }
        if ((res.cls.empty() || res.cls == "leak") && d) varintDictFree(d); // after a suspected leak the object itself is sound
        if (res.cls == "leak") res.leak_total = alloc::live_count() + alloc::kept_count();
        if (res.cls.empty() && alloc::live_count() > seen_extra_) seen_extra_ = alloc::live_count();
        if (res.cls.empty() && alloc::live_count() > allow) {
            res.leak_total = alloc::live_count() + alloc::kept_count();
            res.cls = "leak";
            res.key = "op=dict.free";
            res.detail = std::to_string(alloc::live_count()) + " blocks live after Free";
        }
        alloc::reset_run();
        return res;
    }

    // a block nobody owns is a leak only if it accumulates when the same history is repeated
    Res run_confirmed(const Plan &plan, long fault_op, uint64_t fault_k, bool check, bool honour) {
        Res r = run(plan, fault_op, fault_k, check, honour);
        if (r.cls != "leak") return r;
        Res r2 = run(plan, fault_op, fault_k, check, honour);
        if (r2.cls == "leak" && r2.leak_total > r.leak_total) return r2;
        stat("leak_suspicion_not_confirmed_by_repetition");
        if (r2.cls == "leak") r2 = Res();
        return r2;
    }

    Outcome execute(const Plan &plan) override {
        Outcome out;
        long target = -1;
        for (size_t i = 0; i < plan.ops.size(); i++)
            if (plan.ops[i].is_all("fail")) target = (long)i;
        allow_extra_ = 1000; // the fault-free execution shows what the library keeps for itself
        if (target < 0) {
            run(plan, -1, 0, true, false);
            allow_extra_ = seen_extra_;
            g_log.reset();
            Res r = run_confirmed(plan, -1, 0, true, true);
            out.cases = 1;
            out.hash = g_log.h;
            if (!r.cls.empty()) {
                out.cls = r.cls;
                out.key = r.key;
                out.detail = r.detail;
            }
            out.nontrivial.push_back(plan.digest());
            return out;
        }
        Res b = run(plan, -1, 0, true, false);
        allow_extra_ = seen_extra_;
        out.cases++;
        if (!b.cls.empty()) {
            stat("baseline-invalid");
            out.cls = "skip";
            out.detail = "baseline deviates: " + b.detail;
            out.hash = g_log.h;
            return out;
        }
        for (uint64_t k = 1; k < 1000; k++) {
            ctx_bind((size_t)target, "fail", k);
            Res r = run_confirmed(plan, target, k, false, true);
            out.cases++;
            if (!r.cls.empty() && r.cls != "skip") {
                out.cls = r.cls;
                out.key = r.key;
                out.detail = r.detail;
                out.binds.push_back({(size_t)target, "fail", k});
                break;
            }
            if (!r.fault_fired) break;
            out.nontrivial.push_back(plan.digest() ^ (k * 0x9e3779b97f4a7c15ULL));
        }
        out.hash = g_log.h;
        return out;
    }

    std::string report_json() override { return alloc::sites_json(); }
};

struct Reg {
    Reg() { register_engine(new AllocDict()); }
} reg;
} // namespace
