// E-HIST for very long packed arrays (C09): instantiations whose length type is 32 bits
// wide accept element indexes up to 2^32-1, i.e. bit offsets beyond 2^32 (storage above
// 512 MiB).  The storage is an untouched MAP_NORESERVE mapping between guard pages, the
// model is sparse (only bytes ever written), and after every operation the written bytes,
// the element's neighbourhood and the places a bit offset truncated to 31/32 bits would hit
// are compared.  Complements hist.packed, whose arrays stay below 70000 elements.
#include "../core/gen.h"
#include "../core/sim.h"
#include "../shims/shim_api.h"
#include <algorithm>
#include <cstring>
#include <map>
#include <sys/mman.h>

namespace {
using namespace sim;

class HugePacked : public Engine {
  public:
    const char *name() const override { return "hist.hugepacked"; }
    const char *property() const override { return "C09"; }
    uint64_t tag() const override { return 0x0902; }
    std::vector<std::string> fixed_args() const override { return {}; }

    // instantiations with a 32-bit length type and at least 2 bits per element
    static std::vector<int> eligible() {
        std::vector<int> v;
        for (int i = 0; i < shim_packed_ncfgs; i++)
            if (shim_packed_cfgs[i].max_elements == 0 && shim_packed_cfgs[i].bits >= 2) v.push_back(i);
        return v;
    }

    Plan generate(uint64_t seed, Tier) override {
        Rng r(seed);
        Plan p;
        p.property = property();
        p.engine = name();
        p.seed = seed;
        std::vector<int> el = eligible();
        int cfg = el[r.below(el.size())];
        const shim_packed_cfg &c = shim_packed_cfgs[cfg];
        uint64_t maxv = c.bits >= 64 ? ~0ULL : ((1ULL << c.bits) - 1);
        p.set_knob("cfg", std::to_string(cfg));
        p.set_knob("cfgname", c.name);
        size_t nops = r.range(2, 16);
        for (size_t i = 0; i < nops; i++) {
            Op op;
            // element indexes whose bit offset sits around 2^31, 2^32, 2^33 (or the last index)
            static const unsigned edges[] = {31, 32, 32, 32, 33};
            uint64_t e = 1ULL << r.pick(edges);
            uint64_t idx = e / (uint64_t)c.bits + r.below(6);
            if (r.chance(1, 3) && idx > 3) idx -= r.below(4); // straddling the boundary from below
            if (r.chance(1, 8)) idx = 0xffffffffULL - r.below(3);
            if (r.chance(1, 8)) idx = r.below(64);
            if (idx > 0xffffffffULL) idx = 0xffffffffULL;
            op.set("i", idx);
            switch (r.below(6)) {
            case 0:
            case 1:
            case 2: op.kind = "set"; op.set("v", r.chance(1, 3) ? maxv : (r.next() & maxv)); break;
            case 3: op.kind = "get"; break;
            case 4: op.kind = "incr"; op.set("d", r.below(3)); break;
            default: op.kind = "half"; break;
            }
            p.ops.push_back(op);
        }
        return p;
    }

    Outcome execute(const Plan &plan) override {
        Outcome out;
        int cfg = (int)(plan.knob_u("cfg") % (uint64_t)shim_packed_ncfgs);
        const shim_packed_cfg &c = shim_packed_cfgs[cfg];
        if (c.max_elements != 0 || c.bits < 2) return out;
        const uint64_t bits = (uint64_t)c.bits;
        const uint64_t maxv = bits >= 64 ? ~0ULL : ((1ULL << bits) - 1);
        // storage for every index a 32-bit length type can express, rounded up to whole slots
        const uint64_t total_bits = (0xffffffffULL + 1) * bits;
        const size_t slot = (size_t)c.slot_bytes;
        size_t body = (size_t)((total_bits + 7) / 8);
        body = (body + slot - 1) / slot * slot;
        if (body > (34ULL << 30)) return out;
        const size_t page = 4096;
        size_t maplen = ((body + page - 1) / page + 2) * page;
        uint8_t *map = (uint8_t *)mmap(nullptr, maplen, PROT_READ | PROT_WRITE, MAP_PRIVATE | MAP_ANONYMOUS | MAP_NORESERVE, -1, 0);
        if (map == MAP_FAILED) {
            out.cls = "skip";
            out.detail = "cannot map the array";
            return out;
        }
        mprotect(map, page, PROT_NONE);
        mprotect(map + maplen - page, page, PROT_NONE);
        // the array ends exactly at the trailing guard page
        uint8_t *buf = map + maplen - page - body;
        out.cases = 1;
        g_log.str(c.name);
        std::map<uint64_t, uint8_t> model; // byte offset -> expected value (absent = 0)
        auto expect = [&](uint64_t off) -> uint8_t {
            auto it = model.find(off);
            return it == model.end() ? 0 : it->second;
        };
        auto ref_get = [&](uint64_t idx) -> uint64_t {
            uint64_t v = 0, pos = idx * bits;
            for (uint64_t k = 0; k < bits; k++, pos++)
                if (expect(pos >> 3) & (1u << (pos & 7))) v |= 1ULL << k;
            return v;
        };
        auto ref_set = [&](uint64_t idx, uint64_t v) {
            uint64_t pos = idx * bits;
            for (uint64_t k = 0; k < bits; k++, pos++) {
                uint8_t b = expect(pos >> 3);
                model[pos >> 3] = (v >> k) & 1 ? (uint8_t)(b | (1u << (pos & 7))) : (uint8_t)(b & ~(1u << (pos & 7)));
            }
        };
        auto fail = [&](const std::string &cls, const std::string &key, const std::string &detail) {
            out.cls = cls;
            out.key = key;
            out.detail = std::string(c.name) + " (" + std::to_string(bits) + "-bit elements, " + std::to_string(slot * 8) +
                         "-bit slots, " + std::to_string(body >> 20) + " MiB of storage): " + detail;
        };
        bool beyond32 = false;
        for (size_t oi = 0; oi < plan.ops.size() && !out.violation(); oi++) {
            const Op &op = plan.ops[oi];
            const std::string &k = op.kind;
            uint64_t idx = op.u("i") & 0xffffffffULL;
            uint64_t boff = idx * bits / 8;
            if ((idx * bits) >> 32) beyond32 = true;
            std::string key = "op=" + k + " cfg=" + c.name + " huge";
            ctx_note(key);
            g_log.str(k.c_str());
            stat("op." + k);
            uint64_t cur = ref_get(idx);
            if (k == "set") {
                uint64_t v = op.u("v") & maxv;
                c.set(buf, (uint32_t)idx, v);
                ref_set(idx, v);
            } else if (k == "incr") {
                uint64_t d = op.u("d");
                if (cur + d > maxv) continue; // result must stay in range
                c.set_incr(buf, (uint32_t)idx, (int64_t)d);
                ref_set(idx, cur + d);
            } else if (k == "half") {
                c.set_half(buf, (uint32_t)idx);
                ref_set(idx, cur / 2);
            } else if (k != "get")
                continue;
            uint64_t got = c.get(buf, (uint32_t)idx), want = ref_get(idx);
            g_log.u64(got);
            if (got != want) {
                fail(k == "get" ? "return-value" : "element-value", key, "element " + std::to_string(idx) + " reads " + std::to_string(got) + ", expected " + std::to_string(want));
                break;
            }
            // every byte ever written, the element's neighbourhood, the first slots of the array,
            // and the bytes a bit offset truncated to 31 / 32 bits would have hit instead
            std::vector<uint64_t> probes;
            for (auto &kv : model) probes.push_back(kv.first);
            for (long d = -17; d <= 24; d++)
                if ((long)boff + d >= 0 && (uint64_t)((long)boff + d) < body) probes.push_back((uint64_t)((long)boff + d));
            for (uint64_t a = 0; a < 32 && a < body; a++) probes.push_back(a);
            for (unsigned sh : {31u, 32u}) {
                uint64_t a = ((idx * bits) & ((1ULL << sh) - 1)) / 8;
                for (uint64_t i = 0; i < 16; i++)
                    if (a + i < body) probes.push_back(a + i);
            }
            for (uint64_t off : probes) {
                if (buf[off] != expect(off)) {
                    fail("neighbour-modified", key, "after " + k + " of element " + std::to_string(idx) + " (storage byte " + std::to_string(boff) + "), storage byte " + std::to_string(off) + " holds " + std::to_string(buf[off]) + " instead of " + std::to_string(expect(off)));
                    break;
                }
            }
        }
        if (beyond32) {
            out.nontrivial.push_back(plan.digest());
            stat("runs_with_bit_offsets_beyond_2^32");
        }
        stat(std::string("cfg.") + c.name);
        munmap(map, maplen);
        out.hash = g_log.h;
        return out;
    }
};

struct Reg {
    Reg() { register_engine(new HugePacked()); }
} reg;
} // namespace
