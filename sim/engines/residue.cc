// E-RESIDUE (C15): one API call is executed in several contexts that differ only
// in what a C function can accidentally depend on - stack residue, heap residue,
// prior contents of output buffers, preceding library calls, the process image -
// and must produce identical bytes / values / counts in all of them.
#include "../core/gen.h"
#include "../core/sim.h"
#include "../seams/alloc.h"
#include "../seams/stackctx.h"
#include <algorithm>
#include <cfenv>
#include <cstring>
#include <sys/personality.h>
#include <sstream>
#include <sys/wait.h>
#include <unistd.h>

extern "C" {
#include "varintAdaptive.h"
#include "varintBP128.h"
#include "varintBitmap.h"
#include "varintDict.h"
#include "varintFOR.h"
#include "varintFloat.h"
#include "varintPFOR.h"
#include "varintRLE.h"
#include "varintDelta.h"
#include "varintElias.h"
#include "varintGroup.h"
#include "varintTagged.h"
#include "varintExternal.h"
#include "varintChained.h"
}
extern char **environ;

namespace {
using namespace sim;
typedef std::vector<uint64_t> Vals;

struct Digest {
    uint64_t h = 0xcbf29ce484222325ULL;
    void u64(uint64_t v) { h = fnv1a(&v, 8, h); }
    void bytes(const void *p, size_t n) {
        u64(n);
        h = fnv1a(p, n, h);
    }
};

// how caller-owned output buffers look before the call
struct Prefill {
    int kind = 0; // 0 zero, 1 garbage, 2 word64, 3 word32
    uint64_t w = 0;
    unsigned shift = 0; // byte offset of buffers inside their blocks (multiples of 8 for typed outputs)
    void apply(void *p, size_t n, uint64_t salt) const {
        uint8_t *c = (uint8_t *)p;
        switch (kind) {
        case 0: memset(p, 0, n); break;
        case 1: {
            Rng r(w ^ salt);
            for (size_t i = 0; i < n; i++) c[i] = (uint8_t)r.next();
            break;
        }
        case 2:
            for (size_t i = 0; i < n; i++) c[i] = (uint8_t)(w >> (8 * (i & 7)));
            break;
        default:
            for (size_t i = 0; i < n; i++) c[i] = (uint8_t)(w >> (8 * (i & 3)));
            break;
        }
    }
};

// The stack below the caller as the context wants it, re-applied right before the library is
// entered: the harness's own helper calls (malloc, prefill loops) otherwise leave their frames
// where the library's locals will live, and which of them a local meets depends on frame layout.
// Only for contexts without a call history (the history contexts are about exactly those frames).
static int g_stamp_kind = -1; // -1 off, else stackctx::Fill
static uint64_t g_stamp_word = 0;
__attribute__((noinline)) static void stamp_stack() {
    if (g_stamp_kind < 0) return;
    volatile uint64_t buf[3072];
    uint64_t w = g_stamp_word;
    if (g_stamp_kind == stackctx::WORD32) w = (w & 0xffffffffULL) | (w << 32);
    if (g_stamp_kind == stackctx::GARBAGE) {
        Rng r(g_stamp_word ^ 0x57a3b);
        for (size_t i = 0; i < 3072; i++) buf[i] = r.next();
    } else {
        if (g_stamp_kind == stackctx::ZERO) w = 0;
        for (size_t i = 0; i < 3072; i++) buf[i] = w;
    }
    __asm__ volatile("" ::"r"(buf) : "memory");
}

struct Buf { // heap buffer with a canary tail: silent damage must not outlive the call
    uint8_t *p;
    uint8_t *base;
    size_t n;
    Buf(size_t n_, const Prefill &pf, uint64_t salt) : n(n_) {
        // pf.shift moves the buffer inside its block: results must not depend on the
        // address (alignment, parity) of caller-owned memory either
        base = (uint8_t *)malloc(n + 64 + 64);
        p = base + (pf.shift & 63);
        pf.apply(p, n, salt);
        memset(p + n, 0xC7, 64);
        stamp_stack();
    }
    ~Buf() { free(base); }
    bool intact() const {
        for (size_t i = 0; i < 64; i++)
            if (p[n + i] != 0xC7) return false;
        return true;
    }
    Buf(const Buf &) = delete;
};

const char *api_kinds[] = {"adaptive.encode", "adaptive.encode_with", "adaptive.decode", "for.encode",
                           "for.batch_encode", "for.decode",          "pfor.encode",     "pfor.decode",
                           "float.encode",   "float.encode_auto",     "float.decode",    "dict.encode",
                           "dict.decode",    "dict.decode_into",      "dict.sizes",      "bitmap.roundtrip",
                           "rle.encode",     "rle.encode_header",     "rle.decode",      "rle.decode_header",
                           "bp128.32",       "bp128.64",              "bp128d.32",       "bp128d.64",
                           "group.rt",       "delta.rt",              "deltau.rt",       "elias.gamma",
                           "elias.delta",    "scalar.put"};
const int N_API = sizeof(api_kinds) / sizeof(api_kinds[0]);

// Executes one API call; returns the digest of what the statement observes:
// the return value, the produced bytes [0, returned), the decoded values [0, count).
// `ok` is cleared if a canary around an output buffer was damaged.
uint64_t api_call(const Op &op, const Vals &v_in, const Prefill &pf, bool &ok) {
    Digest d;
    const std::string &k = op.kind;
    Vals v(v_in);
    size_t n = v.size();
    if (!n) return 0;
    uint64_t enc = op.u("enc") % 6;
    // admissible inputs
    if (k.rfind("bp128d", 0) == 0) {
        for (auto &x : v) x >>= 1;
        std::sort(v.begin(), v.end());
    }
    if (k == "bp128.32" || k == "bp128d.32")
        for (auto &x : v) x &= 0xffffffffULL;
    if (k == "bitmap.roundtrip" || ((k == "adaptive.encode_with" || k == "adaptive.decode") && enc == VARINT_ADAPTIVE_BITMAP)) {
        for (auto &x : v) x &= 0xffff;
        std::sort(v.begin(), v.end());
        v.erase(std::unique(v.begin(), v.end()), v.end());
        n = v.size();
    }
    // exact-size heap copy of the input (its address differs between contexts)
    // pf.shift moves the input inside its block too (multiples of 8: other alignment classes
    // modulo 16/32/64 for the same values)
    uint8_t *in_base = (uint8_t *)malloc(n * 8 + 64);
    uint64_t *in = (uint64_t *)(in_base + (pf.shift & 56));
    memcpy(in, v.data(), n * 8);
    int metamode = (int)op.u("meta") % 3; // 0 NULL, 1 zero-initialised, 2 pre-analysed
    stamp_stack();
    if (k == "adaptive.encode" || k == "adaptive.encode_with") {
        Buf dst(varintAdaptiveMaxSize(n) * 2 + 4096, pf, 1);
        varintAdaptiveMeta meta;
        memset(&meta, 0, sizeof meta);
        size_t w = k == "adaptive.encode"
                       ? varintAdaptiveEncode(dst.p, in, n, metamode ? &meta : nullptr)
                       : varintAdaptiveEncodeWith(dst.p, in, n, (varintAdaptiveEncodingType)enc, metamode ? &meta : nullptr);
        d.u64(w);
        d.bytes(dst.p, std::min(w, dst.n));
        ok &= dst.intact();
    } else if (k == "adaptive.decode") {
        Buf dst(varintAdaptiveMaxSize(n) * 2 + 4096, Prefill(), 1);
        size_t w = varintAdaptiveEncodeWith(dst.p, in, n, (varintAdaptiveEncodingType)enc, nullptr);
        if (w) {
            Buf out(n * 8, pf, 2);
            varintAdaptiveMeta meta;
            memset(&meta, 0, sizeof meta);
            size_t c = varintAdaptiveDecode(dst.p, (uint64_t *)out.p, n, metamode ? &meta : nullptr);
            d.u64(c);
            d.bytes(out.p, std::min(c, n) * 8);
            ok &= out.intact();
        }
    } else if (k == "for.encode" || k == "for.batch_encode") {
        varintFORMeta meta;
        memset(&meta, 0, sizeof meta);
        if (metamode == 2) varintFORAnalyze(in, n, &meta);
        Buf dst(64 + n * 9 + 4096, pf, 1);
        size_t w = k == "for.encode" ? varintFOREncode(dst.p, in, n, metamode ? &meta : nullptr)
                                     : varintFORBatchEncode(dst.p, in, n, metamode ? &meta : nullptr);
        d.u64(w);
        d.bytes(dst.p, std::min(w, dst.n));
        ok &= dst.intact();
    } else if (k == "for.decode") {
        varintFORMeta meta;
        memset(&meta, 0, sizeof meta);
        Buf dst(64 + n * 9 + 4096, Prefill(), 1);
        size_t w = varintFOREncode(dst.p, in, n, &meta);
        Buf out(n * 8, pf, 2);
        size_t c = op.u("batch") ? varintFORBatchDecode(dst.p, (uint64_t *)out.p, n)
                                 : varintFORDecode(dst.p, (uint64_t *)out.p, n);
        d.u64(w);
        d.u64(c);
        d.bytes(out.p, std::min(c, n) * 8);
        d.u64(varintFORGetAt(dst.p, n / 2));
        ok &= out.intact();
    } else if (k == "pfor.encode" || k == "pfor.decode") {
        uint32_t thr = (uint32_t)op.u("threshold", 95);
        varintPFORMeta meta;
        memset(&meta, 0, sizeof meta);
        // for the encoder the metadata is an output: it arrives holding whatever the context left
        if (k == "pfor.encode") pf.apply(&meta, sizeof meta, 7);
        Buf dst(64 + n * 28 + 4096, k == "pfor.encode" ? pf : Prefill(), 1);
        size_t w = varintPFOREncode(dst.p, in, (uint32_t)n, thr, &meta);
        d.u64(w);
        if (k == "pfor.encode") {
            d.bytes(dst.p, std::min(w, dst.n));
            ok &= dst.intact();
        } else if (w) {
            varintPFORMeta m2;
            memset(&m2, 0, sizeof m2);
            if (metamode == 2) varintPFORReadMeta(dst.p, &m2);
            Buf out(n * 8, pf, 2);
            size_t c = varintPFORDecode(dst.p, (uint64_t *)out.p, &m2);
            d.u64(c);
            d.bytes(out.p, std::min(c, n) * 8);
            d.u64(varintPFORGetAt(dst.p, (uint32_t)(n / 2), &m2));
            ok &= out.intact();
        }
    } else if (k.rfind("float.", 0) == 0) {
        varintFloatPrecision p = (varintFloatPrecision)(op.u("precision") & 3);
        varintFloatEncodingMode mode = (varintFloatEncodingMode)(op.u("mode") % 3);
        static const double errs[] = {1e-12, 1e-5, 1e-2, 0.1};
        for (size_t i = 0; i < n; i++) { // keep the doubles finite and normal unless the plan says otherwise
            uint64_t ex = (in[i] >> 52) & 0x7ff;
            if (!op.u("specials") && (ex == 0x7ff || ex == 0)) in[i] = (in[i] & 0x800fffffffffffffULL) | (1023ULL << 52);
        }
        Buf dst(varintFloatMaxEncodedSize(n, VARINT_FLOAT_PRECISION_FULL) + 4096, k == "float.decode" ? Prefill() : pf, 1);
        size_t w;
        varintFloatPrecision sel = VARINT_FLOAT_PRECISION_FULL;
        if (k == "float.encode_auto")
            w = varintFloatEncodeAuto(dst.p, (const double *)in, n, errs[op.u("err") & 3], mode, &sel);
        else
            w = varintFloatEncode(dst.p, (const double *)in, n, p, mode);
        d.u64(w);
        d.u64(sel);
        if (k != "float.decode") {
            d.bytes(dst.p, std::min(w, dst.n));
            ok &= dst.intact();
        } else if (w) {
            Buf out(n * 8, pf, 2);
            size_t used = varintFloatDecode(dst.p, n, (double *)out.p);
            d.u64(used);
            d.bytes(out.p, n * 8);
            ok &= out.intact();
        }
    } else if (k.rfind("dict.", 0) == 0) {
        size_t need = varintDictEncodedSize(in, n);
        d.u64(need);
        if (k == "dict.sizes") {
            float r = varintDictCompressionRatio(in, n);
            d.u64(r > 0.0f); // the ratio itself is a float quotient, not produced bytes / values / counts
            varintDictStats st;
            memset(&st, 0, sizeof st);
            d.u64((uint64_t)varintDictGetStats(in, n, &st));
            d.u64(st.uniqueCount);
            d.u64(st.dictBytes);
            d.u64(st.indexBytes);
            d.u64(st.totalBytes);
            // the dictionary as an object: build, every index up to well past its size (documented: 0
            // beyond the size), find; then a smaller build on the same object
            varintDict *dict = varintDictCreate();
            if (dict) {
                if (pf.kind == 1) {
                    // contexts with garbage residue also hand over an object that an earlier call has
                    // used: Build on it must give what Build on a new object gives (here a table large
                    // enough for two-byte indices)
                    std::vector<uint64_t> wide(300 + (pf.w & 255));
                    for (size_t i = 0; i < wide.size(); i++) wide[i] = (i + 1) * 0x9e3779b97f4a7c15ULL;
                    (void)varintDictBuild(dict, wide.data(), wide.size());
                }
                for (int round = 0; round < 2; round++) {
                    size_t cnt = round == 0 ? n : std::max<size_t>(1, n / 3);
                    int rc = varintDictBuild(dict, in, cnt);
                    d.u64((uint64_t)rc);
                    d.u64(dict->size);
                    for (uint32_t i = 0; i < dict->size + 40; i++) d.u64(varintDictLookup(dict, i));
                    d.u64((uint64_t)varintDictFind(dict, in[0]));
                    d.u64((uint64_t)varintDictFind(dict, in[n - 1] ^ 1));
                    d.u64(varintDictEncodedSizeWithDict(dict, cnt));
                    if (rc == 0) {
                        Buf enc2(varintDictEncodedSizeWithDict(dict, cnt) + dict->size * 9 + 4096, pf, 4);
                        size_t w2 = varintDictEncodeWithDict(enc2.p, dict, in, cnt);
                        d.u64(w2);
                        d.bytes(enc2.p, std::min(w2, enc2.n));
                        ok &= enc2.intact();
                    }
                }
                varintDictFree(dict);
            }
        } else {
            Buf dst(need + 4096, k == "dict.encode" ? pf : Prefill(), 1);
            size_t w = varintDictEncode(dst.p, in, n);
            d.u64(w);
            if (k == "dict.encode") {
                d.bytes(dst.p, std::min(w, dst.n));
                ok &= dst.intact();
            } else if (k == "dict.decode") {
                size_t cnt = 0;
                uint64_t *o = varintDictDecode(dst.p, w, &cnt);
                d.u64(cnt);
                if (o) {
                    d.bytes(o, std::min(cnt, n) * 8);
                    alloc::release(o);
                }
            } else {
                Buf out(n * 8, pf, 2);
                size_t c = varintDictDecodeInto(dst.p, w, (uint64_t *)out.p, n);
                d.u64(c);
                d.bytes(out.p, std::min(c, n) * 8);
                ok &= out.intact();
            }
        }
    } else if (k == "bitmap.roundtrip") {
        varintBitmap *vb = varintBitmapCreate();
        if (vb) {
            if (op.u("range") && op.u("runsfirst")) // a long range on the empty set first: a run container that the adds convert
                varintBitmapAddRange(vb, (uint16_t)(in[0] & 0x7fff), (uint16_t)((in[0] & 0x7fff) + 4097 + (op.u("range") & 0xff)));
            for (size_t i = 0; i < n; i++) varintBitmapAdd(vb, (uint16_t)in[i]);
            if (op.u("range") && !op.u("runsfirst")) varintBitmapAddRange(vb, (uint16_t)(in[0] & 0x7fff), (uint16_t)((in[0] & 0x7fff) + 4097 + (op.u("range") & 0xff)));
            Buf dst(16 + 8192 + 4 * 70000, pf, 1);
            size_t w = varintBitmapEncode(vb, dst.p);
            d.u64(w);
            d.bytes(dst.p, std::min(w, dst.n));
            ok &= dst.intact();
            varintBitmap *b2 = varintBitmapDecode(dst.p, w);
            if (b2) {
                Buf out(70000 * 2, pf, 2);
                uint32_t c = varintBitmapToArray(b2, (uint16_t *)out.p);
                d.u64(c);
                d.bytes(out.p, std::min<size_t>(c, 70000) * 2);
                d.u64(varintBitmapCardinality(b2));
                varintBitmapFree(b2);
            }
            if (op.u("churn")) {
                // down across the container threshold, up again, and down once more before the
                // object dies: whatever an object leaves behind when it changes shape must not
                // show in the next object's answers
                for (int round = 0; round < 2; round++) {
                    size_t i = 0;
                    while (varintBitmapCardinality(vb) > 4095 && i < n) varintBitmapRemove(vb, (uint16_t)in[i++]);
                    if (round == 1) break;
                    for (size_t j = 0; j < i; j++) varintBitmapAdd(vb, (uint16_t)in[j]);
                    Buf out(70000 * 2, pf, 3);
                    uint32_t c = varintBitmapToArray(vb, (uint16_t *)out.p);
                    d.u64(c);
                    d.bytes(out.p, std::min<size_t>(c, 70000) * 2);
                    d.u64(varintBitmapContains(vb, (uint16_t)(in[0] ^ 1)));
                }
            }
            varintBitmapFree(vb);
        }
    } else if (k.rfind("rle.", 0) == 0) {
        bool hdr = k == "rle.encode_header" || k == "rle.decode_header";
        bool decode = k == "rle.decode" || k == "rle.decode_header";
        varintRLEMeta meta;
        memset(&meta, 0, sizeof meta);
        Buf dst(varintRLEMaxSize(n) + 64, decode ? Prefill() : pf, 1);
        size_t w = hdr ? varintRLEEncodeWithHeader(dst.p, in, n, metamode ? &meta : nullptr)
                       : varintRLEEncode(dst.p, in, n, metamode ? &meta : nullptr);
        d.u64(w);
        if (!decode) {
            d.bytes(dst.p, std::min(w, dst.n));
            d.u64(varintRLESize(in, n));
            ok &= dst.intact();
        } else {
            Buf out(n * 8, pf, 2);
            size_t c = hdr ? varintRLEDecodeWithHeader(dst.p, (uint64_t *)out.p, n)
                           : varintRLEDecode(dst.p, (uint64_t *)out.p, n);
            d.u64(c);
            d.bytes(out.p, std::min(c, n) * 8);
            ok &= out.intact();
        }
    } else if (k.rfind("bp128", 0) == 0) {
        bool is32 = k == "bp128.32" || k == "bp128d.32";
        bool delta = k.rfind("bp128d", 0) == 0;
        varintBP128Meta meta;
        memset(&meta, 0, sizeof meta);
        Buf dst(varintBP128MaxBytes(n) * 2 + 64, pf, 1);
        size_t w, c;
        if (is32) {
            std::vector<uint32_t> v32(n);
            for (size_t i = 0; i < n; i++) v32[i] = (uint32_t)in[i];
            w = delta ? varintBP128DeltaEncode32(dst.p, v32.data(), n, metamode ? &meta : nullptr)
                      : varintBP128Encode32(dst.p, v32.data(), n, metamode ? &meta : nullptr);
            Buf out(n * 4, pf, 2);
            c = delta ? varintBP128DeltaDecode32(dst.p, (uint32_t *)out.p, n)
                      : varintBP128Decode32(dst.p, (uint32_t *)out.p, n);
            d.bytes(out.p, std::min(c, n) * 4);
            ok &= out.intact();
        } else {
            w = delta ? varintBP128DeltaEncode64(dst.p, in, n, metamode ? &meta : nullptr)
                      : varintBP128Encode64(dst.p, in, n, metamode ? &meta : nullptr);
            Buf out(n * 8, pf, 2);
            c = delta ? varintBP128DeltaDecode64(dst.p, (uint64_t *)out.p, n)
                      : varintBP128Decode64(dst.p, (uint64_t *)out.p, n);
            d.bytes(out.p, std::min(c, n) * 8);
            ok &= out.intact();
        }
        d.u64(w);
        d.u64(c);
        d.bytes(dst.p, std::min(w, dst.n));
        ok &= dst.intact();
    } else if (k == "group.rt") {
        size_t fc = std::min<size_t>(n, 255);
        Buf dst(fc * 9 + 128, pf, 1);
        size_t w = varintGroupEncode(dst.p, in, (uint8_t)fc);
        d.u64(w);
        d.bytes(dst.p, std::min(w, dst.n));
        ok &= dst.intact();
        if (w) {
            Buf out(fc * 8, pf, 2);
            uint8_t got = 0;
            size_t rd = varintGroupDecode(dst.p, (uint64_t *)out.p, &got, fc);
            d.u64(rd);
            d.u64(got);
            d.bytes(out.p, std::min<size_t>(got, fc) * 8);
            d.u64(varintGroupGetSize(dst.p));
            ok &= out.intact();
        }
    } else if (k == "delta.rt" || k == "deltau.rt") {
        Buf dst(varintDeltaMaxEncodedSize(n) + 64, pf, 1);
        Buf out(n * 8, pf, 2);
        size_t w, rd;
        if (k == "delta.rt") {
            for (size_t i = 0; i < n; i++) in[i] >>= 2; // differences stay inside int64_t
            w = varintDeltaEncode(dst.p, (const int64_t *)in, n);
            rd = varintDeltaDecode(dst.p, n, (int64_t *)out.p);
        } else {
            w = varintDeltaEncodeUnsigned(dst.p, in, n);
            rd = varintDeltaDecodeUnsigned(dst.p, n, (uint64_t *)out.p);
        }
        d.u64(w);
        d.u64(rd);
        d.bytes(dst.p, std::min(w, dst.n));
        d.bytes(out.p, n * 8);
        ok &= dst.intact() && out.intact();
    } else if (k == "elias.gamma" || k == "elias.delta") {
        bool g = k == "elias.gamma";
        for (size_t i = 0; i < n; i++)
            if (!in[i]) in[i] = 1;
        Buf dst((g ? varintEliasGammaMaxBytes(n) : varintEliasDeltaMaxBytes(n)) + 64, pf, 1);
        varintEliasMeta m;
        memset(&m, 0, sizeof m);
        size_t w = g ? varintEliasGammaEncodeArray(dst.p, in, n, metamode ? &m : nullptr)
                     : varintEliasDeltaEncodeArray(dst.p, in, n, metamode ? &m : nullptr);
        d.u64(w);
        d.bytes(dst.p, std::min(w, dst.n));
        if (metamode) {
            d.u64(m.count);
            d.u64(m.totalBits);
            d.u64(m.encodedBytes);
        }
        Buf out(n * 8, pf, 2);
        size_t c = g ? varintEliasGammaDecodeArray(dst.p, w * 8, (uint64_t *)out.p, n)
                     : varintEliasDeltaDecodeArray(dst.p, w * 8, (uint64_t *)out.p, n);
        d.u64(c);
        d.bytes(out.p, std::min(c, n) * 8);
        ok &= dst.intact() && out.intact();
    } else if (k == "scalar.put") {
        // the scalar writers: produced bytes [0, width) and the value read back, per element
        size_t m = std::min<size_t>(n, 512);
        Buf dst(m * 4 * 16 + 64, pf, 1);
        uint8_t *q = dst.p;
        for (size_t i = 0; i < m; i++) {
            uint64_t x = in[i], back = 0;
            varintWidth w1 = varintTaggedPut64(q, x);
            d.u64(w1);
            d.bytes(q, w1);
            d.u64(varintTaggedGet64(q, &back));
            d.u64(back);
            q += 16;
            varintWidth w2 = varintExternalPut(q, x);
            d.u64(w2);
            d.bytes(q, w2);
            d.u64(varintExternalGet(q, w2));
            q += 16;
            varintWidth w3 = varintChainedPutVarint(q, x);
            d.u64(w3);
            d.bytes(q, w3);
            back = 0;
            d.u64(varintChainedGetVarint(q, &back));
            d.u64(back);
            q += 16;
        }
        ok &= dst.intact();
    }
    free(in_base);
    return d.h;
}

struct Context {
    std::string name;
    stackctx::Fill stack;
    uint64_t word;
    alloc::Fill heap;
    Prefill out;
    int history; // 0 none, 1 seeded other calls, 2 same API other data, 3 same API same data
};

class Residue : public Engine {
  public:
    const char *name() const override { return "residue"; }
    const char *property() const override { return "C15"; }
    uint64_t tag() const override { return 0x1501; }
    bool restart_after_violation() const override { return true; }
    unsigned hang_timeout_s() const override { return 6; }
    std::vector<std::string> fixed_args() const override {
        return {"enc", "meta", "precision", "mode", "err", "threshold", "batch", "fresh", "range", "specials", "only", "churn", "runsfirst"};
    }

    Plan generate(uint64_t seed, Tier tier) override {
        Rng r(seed);
        Plan p;
        p.property = property();
        p.engine = name();
        p.seed = seed;
        Op op;
        op.kind = r.pick(api_kinds);
        if (r.chance(1, 5)) op.kind = r.chance(1, 2) ? "adaptive.encode_with" : "adaptive.encode";
        size_t n = gen_length(r, tier);
        int cls = (int)r.below(ARR_NCLASSES);
        op.set("enc", r.below(6));
        op.set("meta", r.below(3));
        if (op.kind.rfind("float.", 0) == 0) {
            op.set("precision", r.below(4));
            op.set("mode", r.below(3));
            op.set("err", r.below(4));
            op.set("specials", r.chance(1, 4));
            cls = ARR_FULL64;
        }
        if (op.kind.rfind("pfor.", 0) == 0) {
            op.set("threshold", r.chance(1, 2) ? 95 : (r.chance(1, 2) ? 90 : 99));
            if (r.chance(1, 6)) { // percentiles outside the named constants, including the ends
                static const uint64_t odd[] = {0, 1, 50, 100};
                op.set("threshold", r.pick(odd));
            }
            if (r.chance(1, 2)) cls = ARR_CLUSTERED;
        }
        if (op.kind == "for.decode") op.set("batch", r.below(2));
        if (op.kind == "bitmap.roundtrip") {
            cls = ARR_STRICT_INC16;
            if (r.chance(1, 3)) {
                op.set("range", r.range(1, 255));
                op.set("runsfirst", r.below(2));
            }
            if (r.chance(1, 4)) { // enough members to cross the array/bitmap threshold both ways
                op.set("churn", 1);
                n = 4097 + r.below(700);
            }
        }
        if (op.kind.rfind("dict.", 0) == 0 && r.chance(1, 2)) cls = ARR_LOWCARD;
        if ((op.kind == "adaptive.encode_with" || op.kind == "adaptive.decode") && op.u("enc") == VARINT_ADAPTIVE_BITMAP)
            cls = ARR_STRICT_INC16;
        if ((op.kind == "adaptive.encode" || op.kind == "adaptive.decode") && r.chance(1, 30)) {
            // unsorted input above 10000 elements: the sampling branch of the unique counter
            n = 10001 + r.below(200);
            cls = r.chance(1, 2) ? ARR_POOL : (r.chance(1, 2) ? ARR_PERIODIC : ARR_FULL64);
            if (op.kind == "adaptive.decode") op.set("enc", VARINT_ADAPTIVE_TAGGED);
        }
        if (r.chance(1, tier == Tier::Thorough ? 150 : (op.kind.rfind("pfor.", 0) == 0 ? 120 : 500)) && op.kind != "bitmap.roundtrip" && op.kind.rfind("adaptive.", 0) != 0) {
            n = 65537 + r.below(6000); // paths that only exist above 65536 elements
            if (cls == ARR_STRICT_INC16) cls = ARR_CLUSTERED;
        }
        op.mkarr("values") = gen_array(r, n, cls);
        // different data of the same length (and of the same class) for the self-history context
        op.mkarr("values2") = gen_array(r, n, cls);
        // other API calls that precede the call in the garbage context
        auto &h = op.mkarr("hist");
        size_t nh = r.range(1, 6);
        for (size_t i = 0; i < nh; i++) h.push_back(r.below(N_API));
        op.set("fresh", r.chance(1, 4));
        p.ops.push_back(op);
        return p;
    }

    std::vector<Context> contexts(const Op &op, size_t n, uint64_t seed) {
        std::vector<Context> c;
        Prefill zero, garb, w64, w32, ones, wd;
        garb.kind = 1;
        garb.w = seed ^ 0x6a5b;
        w64.kind = 2;
        w64.w = n;
        w32.kind = 3;
        w32.w = n;
        ones.kind = 2;
        ones.w = ~0ULL;
        wd.kind = 2;
        wd.w = 1 + (seed % 8);
        c.push_back({"clean", stackctx::ZERO, 0, alloc::Fill::Zero, zero, 0});
        c.push_back({"garbage", stackctx::GARBAGE, seed ^ 0x9a4b, alloc::Fill::Garbage, garb, 1});
        c.push_back({"crafted-u64", stackctx::WORD64, (uint64_t)n, alloc::Fill::Pattern, w64, 0});
        c.push_back({"crafted-u32", stackctx::WORD32, (uint64_t)n, alloc::Fill::Pattern, w32, 0});
        c.push_back({"crafted-ones", stackctx::WORD64, ~0ULL, alloc::Fill::Pattern, ones, 0});
        c.push_back({"crafted-width", stackctx::WORD64, wd.w, alloc::Fill::Pattern, wd, 0});
        c.push_back({"self-history", stackctx::ZERO, 0, alloc::Fill::Garbage, garb, 2});
        c.push_back({"self-history-same", stackctx::GARBAGE, seed ^ 0x77, alloc::Fill::Garbage, garb, 3});
        // (A context with another floating-point rounding mode was tried and withdrawn: the
        // adaptive selector's float ratios legitimately follow the C rounding mode, and the
        // statement lists residue, preceding calls and the process image, not the FP environment.)
        Prefill moved = garb;
        moved.shift = 8 * (1 + (unsigned)(seed % 7)); // other addresses, same alignment class for typed outputs
        c.push_back({"moved-buffers", stackctx::ZERO, 0, alloc::Fill::Zero, moved, 0});
        (void)op;
        return c;
    }

    static std::string api_name(const Op &op) {
        std::string api = op.kind;
        if (api == "adaptive.encode_with" || api == "adaptive.decode") {
            static const char *en[] = {"DELTA", "FOR", "PFOR", "DICT", "BITMAP", "TAGGED"};
            api += std::string(" enc=") + en[op.u("enc") % 6];
        }
        return api;
    }
    static std::string g_ctx_note_for(const Op &op, const Context &c) {
        return "api=" + api_name(op) + " |context=" + c.name; // which context disagrees first can depend on addresses
    }

    // Runs the call in one context; returns its digest
    uint64_t in_context(const Op &op, const Context &c, bool &ok) {
        const Vals &vals = *op.arr("values");
        alloc::reset_run();
        uint64_t pat = c.out.kind >= 2 ? c.out.w : c.word;
        if (c.out.kind == 3) pat = (pat & 0xffffffffULL) | (pat << 32);
        alloc::set_fill(c.heap, c.word ^ 0x4ea9, pat);
        // the process-wide PRNG is hidden state too: every context sees another stream
        env_reseed(fnv1a(c.name.data(), c.name.size(), 0x15));
        if (c.name == "clean") env_reseed(0);
        std::vector<std::function<void()>> calls;
        bool dummy_ok = true;
        if (c.history == 1 && op.arr("hist")) {
            for (auto hk : *op.arr("hist")) {
                Op other = op;
                other.kind = api_kinds[hk % N_API];
                const Vals *src = op.arr("values2") ? op.arr("values2") : &vals;
                calls.push_back([other, src, &c, &dummy_ok]() {
                    // a death inside a preceding call belongs to that call
                    ctx_note("api=" + other.kind + " |context=" + c.name + " (as preceding call)");
                    api_call(other, *src, c.out, dummy_ok);
                });
            }
        } else if (c.history == 2 && op.arr("values2") && op.arr("values2")->size() == vals.size()) {
            const Vals *src = op.arr("values2");
            calls.push_back([&op, src, &c, &dummy_ok]() { api_call(op, *src, c.out, dummy_ok); });
        } else if (c.history == 3) {
            calls.push_back([&op, &vals, &c, &dummy_ok]() { api_call(op, vals, c.out, dummy_ok); });
        }
        uint64_t digest = 0;
        std::string note = g_ctx_note_for(op, c);
        calls.push_back([&]() {
            ctx_note(note);
            g_stamp_kind = c.history == 0 ? (int)c.stack : -1;
            g_stamp_word = c.word;
            int saved = fegetround();
            if (c.history == 10) fesetround(FE_UPWARD);
            if (c.history == 11) fesetround(FE_TOWARDZERO);
            digest = api_call(op, vals, c.out, ok);
            g_stamp_kind = -1;
            fesetround(saved);
        });
        stackctx::run(calls, c.stack, c.word);
        alloc::reset_run();
        return digest;
    }

    Outcome execute(const Plan &plan) override {
        Outcome out;
        if (plan.ops.empty()) return out;
        // all operations but the last are a prelude: earlier calls made by this process
        // (what a worker has executed before), run once in the clean context
        const Op &op = plan.ops.back();
        if (!op.arr("values") || op.arr("values")->empty()) return out;
        size_t n = op.arr("values")->size();
        std::vector<Context> ctxs = contexts(op, n, plan.seed);
        std::string api = api_name(op);
        g_log.str(api.c_str());
        for (size_t i = 0; i + 1 < plan.ops.size(); i++) {
            const Op &pre = plan.ops[i];
            if (!pre.arr("values") || pre.arr("values")->empty()) continue;
            // exactly what a worker does for a run of that operation: every context, results ignored
            std::vector<Context> pc = contexts(pre, pre.arr("values")->size(), plan.seed);
            for (auto &c : pc) {
                bool ok = true;
                in_context(pre, c, ok);
            }
        }
        // child mode: only the clean context, print the digest (fresh-process context)
        if (op.has("only")) {
            bool ok = true;
            uint64_t dgst = in_context(op, ctxs[0], ok);
            printf("FRESH %016llx\n", (unsigned long long)dgst);
            out.hash = dgst;
            return out;
        }
        if (op.u("fresh")) {
            // Calls that are compared with a fresh process are preceded, before the reference itself
            // is taken, by the same API on other data of the same length: state that sticks to the
            // *first* such call is then in the in-process reference and absent from the fresh process.
            for (auto &c : ctxs)
                if (c.history == 2) {
                    bool ignored = true;
                    in_context(op, c, ignored);
                    break;
                }
        }
        uint64_t ref = 0;
        for (size_t i = 0; i < ctxs.size(); i++) {
            const Context &c = ctxs[i];
            bool ok = true;
            uint64_t dgst = in_context(op, c, ok);
            out.cases++;
            stat("context." + c.name);
            g_log.u64(dgst);
            if (i == 0) {
                ref = dgst;
                if (!ok) {
                    stat("baseline-invalid");
                    out.cls = "skip";
                    out.detail = "the clean context already writes beyond its buffers";
                    break;
                }
                continue;
            }
            uint64_t nt = fnv1a(c.name.data(), c.name.size(), plan.digest());
            out.nontrivial.push_back(nt);
            if (dgst != ref || !ok) {
                out.cls = "context-disagreement";
                out.key = "api=" + api;
                out.detail = api + " on " + std::to_string(n) + " values: the result in context '" + c.name +
                             "' differs from the result in the clean context (same arguments)" +
                             (ok ? "" : "; a canary next to an output buffer was overwritten");
                break;
            }
        }
        if (!out.violation() && out.cls != "skip" && op.u("fresh")) {
            // the clean context in a newly spawned process (address randomisation left on)
            ctx_note("api=" + api + " |context=fresh-process");
            Plan q = plan;
            q.ops.erase(q.ops.begin(), q.ops.end() - 1); // the fresh process has no earlier calls
            q.ops[0].set("only", 1);
            q.ops[0].erase("fresh");
            char path[] = "/dev/shm/sim-fresh-XXXXXX";
            int fd = mkstemp(path);
            if (fd >= 0) {
                std::string t = q.to_text();
                if (write(fd, t.data(), t.size()) < 0) {
                }
                close(fd);
                int pfd[2];
                if (pipe(pfd) == 0) {
                    std::string got;
                    fflush(stdout);
                    pid_t pid = fork();
                    if (pid == 0) {
                        // a new process image with address-space randomisation switched back on
                        int pers = personality(0xffffffff);
                        if (pers != -1) personality(pers & ~ADDR_NO_RANDOMIZE);
                        setenv("SIM_NO_REEXEC", "1", 1);
                        dup2(pfd[1], 1);
                        close(pfd[0]);
                        close(pfd[1]);
                        execl("/proc/self/exe", "sim", "residue", "ctx", "--plan", path, (char *)nullptr);
                        _exit(127);
                    }
                    close(pfd[1]);
                    if (pid > 0) {
                        char buf[256];
                        ssize_t r;
                        while ((r = read(pfd[0], buf, sizeof buf)) > 0) got.append(buf, (size_t)r);
                        int st;
                        waitpid(pid, &st, 0);
                    }
                    close(pfd[0]);
                    out.cases++;
                    stat("context.fresh-process");
                    size_t pos = got.find("FRESH ");
                    uint64_t dg = pos == std::string::npos ? 0 : strtoull(got.c_str() + pos + 6, nullptr, 16);
                    out.nontrivial.push_back(fnv1a("fresh", 5, plan.digest()));
                    if (pos == std::string::npos || dg != ref) {
                        out.cls = "context-disagreement";
                        out.key = "api=" + api;
                        out.detail = api + ": the result in a freshly spawned process differs from the result in "
                                           "this process (same arguments): hidden state left by earlier calls";
                        if (plan.ops.size() == 1 && !recent_.empty()) {
                            Plan cp = plan;
                            cp.ops.clear();
                            for (auto &r : recent_) cp.ops.push_back(r);
                            cp.ops.push_back(op);
                            out.concrete_plan = cp.to_text();
                        }
                    }
                }
                unlink(path);
            }
        }
        out.hash = g_log.h;
        if (plan.ops.size() == 1) { // what this process has executed so far (bounded)
            Op keep = op;
            keep.set("fresh", 0);
            recent_.push_back(keep);
            if (recent_.size() > 4000) recent_.erase(recent_.begin());
        }
        return out;
    }

    // the operations this worker executed before the plan's own (single) operation
    std::string history_plan(const Plan &plan) override {
        if (plan.ops.size() != 1 || recent_.size() < 2) return std::string();
        Plan cp = plan;
        cp.ops.clear();
        for (size_t i = 0; i + 1 < recent_.size(); i++) cp.ops.push_back(recent_[i]); // the last entry is the operation itself
        cp.ops.push_back(plan.ops[0]);
        return cp.to_text();
    }

  private:
    std::vector<Op> recent_;
};

struct Reg {
    Reg() { register_engine(new Residue()); }
} reg;
} // namespace
