// E-FIBER engine (C17): 2-16 tasks call the stateless codecs concurrently on
// shared read-only inputs and private outputs, under a seeded scheduler whose
// yield points are every load, store and basic block of library code.
// Oracles: no conflict (byte touched by two tasks, one writing), every result
// identical to the task running alone, shared inputs unchanged.
#include "../core/gen.h"
#include "../core/sim.h"
#include "../seams/alloc.h"
#include "../seams/fiber.h"
#include "../shims/shim_api.h"
#include <algorithm>
#include <cstring>
#include <map>
#include <numeric>
#include <set>
#include <sstream>

extern "C" {
#include "varint.h"
#include "varintAdaptive.h"
#include "varintBP128.h"
#include "varintChained.h"
#include "varintChainedSimple.h"
#include "varintDelta.h"
#include "varintDict.h"
#include "varintElias.h"
#include "varintExternal.h"
#include "varintExternalBigEndian.h"
#include "varintFOR.h"
#include "varintFloat.h"
#include "varintGroup.h"
#include "varintPFOR.h"
#include "varintRLE.h"
#include "varintTagged.h"
}

namespace {
using namespace sim;
typedef std::vector<uint64_t> Vals;

struct Digest {
    uint64_t h = 0xcbf29ce484222325ULL;
    void u64(uint64_t v) { h = fnv1a(&v, 8, h); }
    void bytes(const void *p, size_t n) {
        u64(n);
        h = fnv1a(p, n, h);
    }
};

// Private buffer of a task: the real allocator may hand the same address to
// another task later, so its shadow is cleared when it is obtained and released.
template <class T> struct Priv {
    std::vector<T> v;
    explicit Priv(size_t n) : v(n) { fiber::forget(v.data(), v.size() * sizeof(T)); }
    ~Priv() { fiber::forget(v.data(), v.size() * sizeof(T)); }
    T *data() { return v.data(); }
    size_t size() const { return v.size(); }
    T &operator[](size_t i) { return v[i]; }
};

// Digests the first `want` bytes of a harness buffer.  `want` often comes from the library
// (a returned length): when interference between tasks makes it larger than the buffer, the
// harness must not read past its own block (heap residue there is not a function of the
// seed - glibc stores a random key in freed chunks); the excess is recorded as a number.
template <class D, class T> static void dig(D &d, Priv<T> &b, size_t want) {
    size_t cap = b.size() * sizeof(T);
    if (want > cap) {
        d.u64(0xbadbadbadULL);
        d.u64(want);
        want = cap;
    }
    d.bytes(b.data(), want);
}

struct Lib { // marks the dynamic extent of library calls for the scheduler statistics
    Lib() { fiber::lib_enter(); }
    ~Lib() { fiber::lib_exit(); }
};

// transforms that make an input admissible for a codec; transformed arrays are
// built once before the tasks start and shared like any other input
enum Xform { X_NONE, X_GE1, X_U32, X_SORTED, X_SORTED32, X_INC16, X_GROUP, X_DOUBLE };

const char *call_kinds[] = {"scalar.tagged", "scalar.external", "scalar.chained", "scalar.chainedsimple",
                            "scalar.split",  "delta.rt",        "deltau.rt",      "for.rt",
                            "pfor.rt",       "group.rt",        "dict.rt",        "dict.shared",
                            "rle.rt",        "rleh.rt",         "elias.gamma",    "elias.delta",
                            "bp128.32",      "bp128.64",        "bp128d.32",      "bp128d.64",
                            "float.rt",      "adaptive.rt",     "adaptive.forced", "packed.slice",
                            "bitstream.slice", "decode.bad",     "cells.external",   "packed.member",  "adaptive.analyze"};

Xform xform_of(const std::string &k, uint64_t enc) {
    if (k == "elias.gamma" || k == "elias.delta") return X_GE1;
    if (k == "bp128.32") return X_U32;
    if (k == "bp128d.32") return X_SORTED32;
    if (k == "bp128d.64") return X_SORTED;
    if (k == "group.rt") return X_GROUP;
    if (k == "float.rt") return X_DOUBLE;
    if (k == "adaptive.forced" && enc == VARINT_ADAPTIVE_BITMAP) return X_INC16;
    return X_NONE;
}

Vals apply_xform(const Vals &v, Xform x) {
    Vals o(v);
    switch (x) {
    case X_GE1:
        for (auto &e : o)
            if (!e) e = 1;
        break;
    case X_U32:
        for (auto &e : o) e &= 0xffffffffULL;
        break;
    case X_SORTED:
        for (auto &e : o) e >>= 1;
        std::sort(o.begin(), o.end());
        break;
    case X_SORTED32:
        for (auto &e : o) e &= 0xffffffffULL;
        std::sort(o.begin(), o.end());
        break;
    case X_INC16:
        for (auto &e : o) e &= 0xffff;
        std::sort(o.begin(), o.end());
        o.erase(std::unique(o.begin(), o.end()), o.end());
        break;
    case X_GROUP:
        if (o.size() > 64) o.resize(64);
        break;
    case X_DOUBLE:
        if ((o.size() % 3) == 1) break; // keep NaNs / infinities / subnormals as they are for some inputs
        for (auto &e : o) {
            uint64_t ex = (e >> 52) & 0x7ff;
            if (ex == 0x7ff || ex == 0) e = (e & 0x800fffffffffffffULL) | (1023ULL << 52);
        }
        break;
    default: break;
    }
    return o;
}

struct Shared { // state shared by all tasks of one run (read-only for them, except packed/bitstream slices)
    std::map<std::pair<uint64_t, int>, uint64_t *> arrays; // (input id, xform) -> heap array
    std::map<std::pair<uint64_t, int>, size_t> lens;
    std::map<uint64_t, varintDict *> dicts;                // prebuilt read-only dictionaries
    uint64_t packed_cfg = 0;                               // run-level: all tasks use the same instantiation
    uint8_t *packed = nullptr;                             // one shared packed array, slot-disjoint slices
    size_t packed_bytes = 0;
    uint64_t *bitwords = nullptr;                          // one shared bitstream, word-disjoint slices
    size_t bitwords_n = 0;
    uint8_t *cells = nullptr;                              // one shared byte buffer: adjacent fixed-width cells, byte-disjoint
    size_t cells_bytes = 0;
    uint8_t *sorted_packed = nullptr;                      // one shared read-only sorted packed array
    size_t sorted_bytes = 0;
    uint32_t sorted_len = 0;
};

// One call of the catalogue.  Everything it writes is private, except the
// task's own slice of the shared packed array / bitstream.
uint64_t run_call(const Op &c, Shared &sh, int slice, int nslices) {
    Digest d;
    const std::string &k = c.kind;
    uint64_t enc = c.u("enc");
    Xform x = xform_of(k, enc);
    auto key = std::make_pair(c.u("in"), (int)x);
    if (!sh.arrays.count(key)) return 0;
    const uint64_t *in = sh.arrays[key];
    size_t n = sh.lens[key];
    if (n == 0) return 0;
    Priv<uint8_t> buf(64 + n * 40 + 4096);
    Priv<uint64_t> out(n + 8);
    if (k.rfind("scalar.", 0) == 0) {
        for (size_t i = 0; i < n; i++) {
            uint8_t b[32];
            memset(b, 0, sizeof b);
            uint64_t v = in[i], r = 0;
            size_t w = 0, w2 = 0;
            Lib l;
            if (k == "scalar.tagged") {
                w = varintTaggedPut64(b, v);
                w2 = varintTaggedGet64(b, &r);
                d.u64(varintTaggedLen(v));
                d.u64(varintTaggedGetLen(b));
            } else if (k == "scalar.external") {
                w = varintExternalPut(b, v);
                r = varintExternalGet(b, (varintWidth)w);
                w2 = varintExternalBigEndianPut(b + 16, v);
                d.u64(varintExternalBigEndianGet(b + 16, (varintWidth)w2));
            } else if (k == "scalar.chained") {
                w = varintChainedPutVarint(b, v);
                w2 = varintChainedGetVarint(b, &r);
                d.u64(varintChainedVarintLen(v));
            } else if (k == "scalar.chainedsimple") {
                w = varintChainedSimpleEncode64(b, v);
                w2 = varintChainedSimpleDecode64(b, &r);
                d.u64(varintChainedSimpleLength(v));
            } else {
                int fam = (int)(c.u("family") & 3);
                uint64_t vv = fam == 2 && v == 0 ? 1 : v;
                w = shim_split_put(fam, b, vv);
                w2 = shim_split_get(fam, b, &r);
            }
            d.u64(w);
            d.u64(w2);
            d.u64(r);
            d.bytes(b, sizeof b);
        }
    } else if (k == "delta.rt" || k == "deltau.rt") {
        Lib l;
        size_t w, rd;
        if (k == "delta.rt") {
            Priv<int64_t> sv(n), so(n);
            for (size_t i = 0; i < n; i++) sv[i] = (int64_t)(in[i] >> 2);
            w = varintDeltaEncode(buf.data(), sv.data(), n);
            rd = varintDeltaDecode(buf.data(), n, so.data());
            dig(d, so, n * 8);
        } else {
            w = varintDeltaEncodeUnsigned(buf.data(), in, n);
            rd = varintDeltaDecodeUnsigned(buf.data(), n, out.data());
            dig(d, out, n * 8);
        }
        d.u64(w);
        d.u64(rd);
        dig(d, buf, w);
    } else if (k == "for.rt") {
        Lib l;
        varintFORMeta m;
        memset(&m, 0, sizeof m);
        varintFORAnalyze(in, n, &m);
        size_t w = varintFOREncode(buf.data(), in, n, c.u("nometa") ? nullptr : &m);
        d.u64(w);
        dig(d, buf, w);
        d.u64(varintFORDecode(buf.data(), out.data(), n));
        dig(d, out, n * 8);
        d.u64(varintFORBatchDecode(buf.data(), out.data(), n));
        dig(d, out, n * 8);
        d.u64(varintFORDecodeBlock(buf.data(), out.data(), n / 2, n));
        d.u64(varintFORGetAt(buf.data(), n / 3));
        d.u64(varintFORGetCount(buf.data()));
        d.u64(varintFORGetMinValue(buf.data()));
    } else if (k == "pfor.rt") {
        Lib l;
        varintPFORMeta m, m2;
        memset(&m, 0, sizeof m);
        memset(&m2, 0, sizeof m2);
        Priv<uint8_t> big(64 + n * 24 + 4096);
        size_t w = varintPFOREncode(big.data(), in, (uint32_t)n, (uint32_t)c.u("threshold", 95), &m);
        d.u64(w);
        dig(d, big, w);
        if (w) {
            d.u64(varintPFORDecode(big.data(), out.data(), &m2));
            dig(d, out, n * 8);
            d.u64(varintPFORGetAt(big.data(), (uint32_t)(n / 2), &m2));
            for (size_t i = 0; i < n; i += (n > 16 ? n / 8 : 1)) d.u64(varintPFORGetAt(big.data(), (uint32_t)i, &m2));
        }
    } else if (k == "group.rt") {
        Lib l;
        size_t w = varintGroupEncode(buf.data(), in, (uint8_t)n);
        uint8_t fc = 0;
        d.u64(w);
        dig(d, buf, w);
        d.u64(varintGroupDecode(buf.data(), out.data(), &fc, n));
        d.u64(fc);
        dig(d, out, n * 8);
        d.u64(varintGroupGetSize(buf.data()));
        {
            uint64_t fv = 0;
            d.u64(varintGroupGetField(buf.data(), (uint8_t)(n / 2), &fv));
            d.u64(fv);
            d.u64(varintGroupGetFieldWidth(buf.data(), (uint8_t)(n - 1)));
        }
    } else if (k == "dict.rt") {
        Lib l;
        size_t need = varintDictEncodedSize(in, n);
        Priv<uint8_t> big(need + 64);
        size_t w = varintDictEncode(big.data(), in, n);
        d.u64(need);
        d.u64(w);
        dig(d, big, w);
        size_t cnt = 0;
        uint64_t *o = varintDictDecode(big.data(), w, &cnt);
        d.u64(cnt);
        if (o) {
            size_t have = alloc::size_of(o);
            if (cnt * 8 > have) d.u64(0xbadbadbadULL);
            d.bytes(o, std::min(cnt * 8, have));
            alloc::release(o);
        }
        d.u64(varintDictDecodeInto(big.data(), w, out.data(), n));
        dig(d, out, n * 8);
    } else if (k == "dict.shared") {
        auto it = sh.dicts.find(c.u("in"));
        if (it == sh.dicts.end()) return 0;
        Lib l;
        const varintDict *dict = it->second;
        size_t need = varintDictEncodedSizeWithDict(dict, n);
        Priv<uint8_t> big(need + 64);
        size_t w = varintDictEncodeWithDict(big.data(), dict, in, n);
        d.u64(w);
        dig(d, big, w);
        for (size_t i = 0; i < n; i += 3) {
            int32_t idx = varintDictFind(dict, in[i]);
            d.u64((uint64_t)idx);
            d.u64(varintDictLookup(dict, (uint32_t)idx));
        }
    } else if (k == "rle.rt" || k == "rleh.rt") {
        Lib l;
        varintRLEMeta m;
        memset(&m, 0, sizeof m);
        varintRLEMeta *mp = c.u("nometa") ? nullptr : &m;
        size_t w = k == "rle.rt" ? varintRLEEncode(buf.data(), in, n, mp)
                                 : varintRLEEncodeWithHeader(buf.data(), in, n, mp);
        d.u64(w);
        dig(d, buf, w);
        d.u64(k == "rle.rt" ? varintRLEDecode(buf.data(), out.data(), n)
                            : varintRLEDecodeWithHeader(buf.data(), out.data(), n));
        dig(d, out, n * 8);
        d.u64(varintRLESize(in, n));
        if (k == "rle.rt") {
            d.u64(varintRLEGetRunCount(buf.data(), w));
            d.u64(varintRLEGetAt(buf.data(), n / 2));
            d.u64(varintRLEGetAt(buf.data(), n - 1));
        } else
            d.u64(varintRLEGetCount(buf.data()));
    } else if (k == "elias.gamma" || k == "elias.delta") {
        Lib l;
        bool g = k == "elias.gamma";
        Priv<uint8_t> big((g ? varintEliasGammaMaxBytes(n) : varintEliasDeltaMaxBytes(n)) + 64);
        varintEliasMeta m;
        memset(&m, 0, sizeof m);
        bool nometa = c.u("nometa") != 0;
        size_t w = g ? varintEliasGammaEncodeArray(big.data(), in, n, nometa ? nullptr : &m)
                     : varintEliasDeltaEncodeArray(big.data(), in, n, nometa ? nullptr : &m);
        size_t bits = nometa ? w * 8 : m.totalBits;
        d.u64(w);
        d.u64(bits);
        dig(d, big, w);
        d.u64(g ? varintEliasGammaDecodeArray(big.data(), bits, out.data(), n)
                : varintEliasDeltaDecodeArray(big.data(), bits, out.data(), n));
        dig(d, out, n * 8);
    } else if (k == "bp128.32" || k == "bp128d.32") {
        Lib l;
        Priv<uint32_t> v32(n), o32(n + 8);
        for (size_t i = 0; i < n; i++) v32[i] = (uint32_t)in[i];
        Priv<uint8_t> big(varintBP128MaxBytes(n) + 64);
        varintBP128Meta m;
        memset(&m, 0, sizeof m);
        varintBP128Meta *mp = c.u("nometa") ? nullptr : &m;
        size_t w = k == "bp128.32" ? varintBP128Encode32(big.data(), v32.data(), n, mp)
                                   : varintBP128DeltaEncode32(big.data(), v32.data(), n, mp);
        d.u64(w);
        dig(d, big, w);
        d.u64(k == "bp128.32" ? varintBP128Decode32(big.data(), o32.data(), n)
                              : varintBP128DeltaDecode32(big.data(), o32.data(), n));
        dig(d, o32, n * 4);
    } else if (k == "bp128.64" || k == "bp128d.64") {
        Lib l;
        Priv<uint8_t> big(varintBP128MaxBytes(n) * 2 + 64);
        varintBP128Meta m;
        memset(&m, 0, sizeof m);
        varintBP128Meta *mp = c.u("nometa") ? nullptr : &m;
        size_t w = k == "bp128.64" ? varintBP128Encode64(big.data(), in, n, mp)
                                   : varintBP128DeltaEncode64(big.data(), in, n, mp);
        d.u64(w);
        dig(d, big, w);
        d.u64(k == "bp128.64" ? varintBP128Decode64(big.data(), out.data(), n)
                              : varintBP128DeltaDecode64(big.data(), out.data(), n));
        dig(d, out, n * 8);
    } else if (k == "float.rt") {
        Lib l;
        varintFloatPrecision p = (varintFloatPrecision)(c.u("precision") & 3);
        varintFloatEncodingMode mode = (varintFloatEncodingMode)(c.u("mode") % 3);
        Priv<uint8_t> big(varintFloatMaxEncodedSize(n, p) + 64);
        size_t w = varintFloatEncode(big.data(), (const double *)in, n, p, mode);
        d.u64(w);
        dig(d, big, w);
        if (w) {
            d.u64(varintFloatDecode(big.data(), n, (double *)out.data()));
            dig(d, out, n * 8);
        }
    } else if (k == "adaptive.rt" || k == "adaptive.forced") {
        Lib l;
        Priv<uint8_t> big(varintAdaptiveMaxSize(n) * 2 + 4096);
        varintAdaptiveMeta m;
        memset(&m, 0, sizeof m);
        varintAdaptiveMeta *mp = c.u("nometa") ? nullptr : &m;
        size_t w = k == "adaptive.rt"
                       ? varintAdaptiveEncode(big.data(), in, n, mp)
                       : varintAdaptiveEncodeWith(big.data(), in, n, (varintAdaptiveEncodingType)(enc % 6), mp);
        d.u64(w);
        dig(d, big, w);
        if (w) {
            d.u64(varintAdaptiveDecode(big.data(), out.data(), n, nullptr));
            dig(d, out, n * 8);
        }
    } else if (k == "adaptive.analyze") {
        // the analysis entry points are public API of the pure codecs too
        Lib l;
        varintAdaptiveDataStats st;
        memset(&st, 0, sizeof st);
        varintAdaptiveAnalyze(in, n, &st);
        d.u64(st.count);
        d.u64(st.minValue);
        d.u64(st.maxValue);
        d.u64(st.range);
        d.u64(st.uniqueCount);
        d.u64(st.avgDelta);
        d.u64(st.maxDelta);
        d.u64(st.outlierCount);
        d.bytes(&st.uniqueRatio, sizeof st.uniqueRatio);
        d.bytes(&st.outlierRatio, sizeof st.outlierRatio);
        d.u64(st.isSorted);
        d.u64(st.isReverseSorted);
        d.u64(st.fitsInBitmapRange);
        d.u64(varintAdaptiveCountUnique(in, n));
        d.u64((uint64_t)varintAdaptiveSelectEncoding(&st));
    } else if (k == "decode.bad") {
        // the length-taking decoders on truncated / corrupted encodings: their failure exits are
        // as much part of "stateless" as their success paths
        Lib l;
        size_t need = varintDictEncodedSize(in, n);
        Priv<uint8_t> big(need + 64);
        size_t w = varintDictEncode(big.data(), in, n);
        size_t cut = w ? (c.u("cut", 3) % w) : 0;
        size_t cnt = 0;
        uint64_t *o = varintDictDecode(big.data(), cut, &cnt);
        d.u64(o != nullptr);
        if (o) alloc::release(o);
        d.u64(varintDictDecodeInto(big.data(), cut, out.data(), n));
        if (w > 2) {
            big[w / 2] ^= 0xff;
            d.u64(varintDictDecodeInto(big.data(), w, out.data(), n));
        }
        uint64_t tv = 0;
        uint8_t tb[9];
        size_t tw = varintTaggedPut64(tb, in[0]);
        d.u64(varintTaggedGet(tb, (int32_t)(tw ? tw - 1 : 0), &tv));
        d.u64(varintRLEGetRunCount(big.data(), cut));
        d.u64(varintBP128GetCount(big.data(), cut ? 1 : 0));
    } else if (k == "packed.slice") {
        // slot-disjoint element range of one shared packed array (default 32-bit slots):
        // each slice is a whole number of slot periods
        int cfg = (int)(sh.packed_cfg % (uint64_t)shim_packed_ncfgs); // one configuration per run
        const shim_packed_cfg &pc = shim_packed_cfgs[cfg];
        size_t period_bits = (size_t)pc.bits * pc.slot_bytes * 8 / (size_t)std::gcd(pc.bits, pc.slot_bytes * 8);
        size_t per = period_bits / (size_t)pc.bits; // elements per slot period
        size_t slice_elems = per * 2;
        size_t total_bytes = (slice_elems * (size_t)nslices * (size_t)pc.bits + 7) / 8 + 16;
        if (total_bytes > sh.packed_bytes) return 0;
        if (pc.max_elements && slice_elems * (size_t)nslices > (size_t)pc.max_elements) return 0; // beyond this instantiation's length type
        uint32_t base = (uint32_t)(slice_elems * (size_t)slice);
        uint64_t mask = pc.bits >= 64 ? ~0ULL : ((1ULL << pc.bits) - 1);
        Lib l;
        for (size_t i = 0; i < slice_elems; i++) pc.set(sh.packed, base + (uint32_t)i, in[i % n] & mask);
        for (size_t i = 0; i < slice_elems; i++) d.u64(pc.get(sh.packed, base + (uint32_t)i));
        pc.set_half(sh.packed, base + 1);
        d.u64(pc.get(sh.packed, base + 1));
    } else if (k == "cells.external") {
        // adjacent cells of one shared buffer, each exactly as wide as the varint stored in it:
        // task t owns cells t*4 .. t*4+3; a store must touch nothing but its own bytes
        unsigned w = (unsigned)(sh.packed_cfg % 8) + 1; // one width per run
        const size_t per = 4;
        uint8_t *base = sh.cells + (size_t)slice * per * w;
        if ((size_t)(slice + 1) * per * w + 16 > sh.cells_bytes) return 0;
        uint64_t mask = w >= 8 ? ~0ULL : ((1ULL << (8 * w)) - 1);
        uint64_t lowest = w == 1 ? 0 : (1ULL << (8 * (w - 1))); // smallest value that needs w bytes
        Lib l;
        for (int round = 0; round < 2; round++)
            for (size_t j = 0; j < per; j++) {
                uint64_t v = (in[(j + (size_t)round) % n] & mask) | lowest;
                uint8_t *cell = base + j * w;
                if (round == 0)
                    varintExternalPutFixedWidth(cell, v, (varintWidth)w);
                else
                    d.u64(varintExternalPut(cell, v)); // width derived from the value: w again
                d.u64(varintExternalGet(cell, (varintWidth)w));
            }
        for (size_t j = 0; j < per; j++) d.u64(varintExternalGet(base + j * w, (varintWidth)w));
    } else if (k == "packed.member") {
        // queries on one shared, read-only, sorted packed array
        int cfg = (int)(sh.packed_cfg % (uint64_t)shim_packed_ncfgs);
        const shim_packed_cfg &pc = shim_packed_cfgs[cfg];
        if (!sh.sorted_packed || !sh.sorted_len) return 0;
        uint64_t mask = pc.bits >= 64 ? ~0ULL : ((1ULL << pc.bits) - 1);
        Lib l;
        for (size_t i = 0; i < std::min<size_t>(n, 6); i++) {
            uint64_t v = in[i] & mask;
            d.u64((uint64_t)pc.member(sh.sorted_packed, sh.sorted_len, v));
            d.u64(pc.lower_bound(sh.sorted_packed, sh.sorted_len, v));
            d.u64(pc.get(sh.sorted_packed, (uint32_t)(i % sh.sorted_len)));
        }
        d.u64((uint64_t)pc.member(sh.sorted_packed, sh.sorted_len, pc.get(sh.sorted_packed, sh.sorted_len / 2)));
        d.u64((uint64_t)pc.member(sh.sorted_packed, sh.sorted_len, pc.get(sh.sorted_packed, 0)));
    } else if (k == "bitstream.slice") {
        size_t words = 4;
        if ((size_t)nslices * words > sh.bitwords_n) return 0;
        uint64_t *base = sh.bitwords; // word-disjoint: slice s owns words [s*4, s*4+4)
        size_t bits = (size_t)c.u("bits", 13) % 64 + 1;
        size_t off0 = (size_t)slice * words * 64;
        Lib l;
        size_t cnt = (words * 64) / bits;
        uint64_t mask = bits >= 64 ? ~0ULL : ((1ULL << bits) - 1);
        for (size_t i = 0; i < cnt; i++) shim_bitstream_set(base, off0 + i * bits, bits, in[i % n] & mask);
        for (size_t i = 0; i < cnt; i++) d.u64(shim_bitstream_get(base, off0 + i * bits, bits));
    }
    return d.h;
}

class FiberEngine : public Engine {
    std::set<uint64_t> site_pairs_;
    std::map<uintptr_t, uint64_t> overlap_fn_;

  public:
    const char *name() const override { return "fiber"; }
    const char *property() const override { return "C17"; }
    uint64_t tag() const override { return 0x1701; }
    bool restart_after_violation() const override { return true; }
    unsigned cold_start_every() const override { return 32; }
    std::vector<std::string> fixed_args() const override {
        return {"task", "in", "enc", "family", "precision", "mode", "cfg", "bits", "threshold", "id", "nometa", "cut"};
    }

    Plan generate(uint64_t seed, Tier tier) override {
        Rng r(seed);
        Plan p;
        p.property = property();
        p.engine = name();
        p.seed = seed;
        size_t ntasks = r.chance(1, 2) ? r.range(2, 4) : r.range(2, tier == Tier::Thorough ? 16 : 10);
        if (r.chance(1, 12)) ntasks = 16;
        // 1 run in 300: few tasks, few calls, but inputs of thousands of elements - code paths that
        // exist only above a size threshold (sampling above 10000 values, bulk paths above 4096)
        bool bigrun = r.chance(1, 200);
        if (bigrun) ntasks = r.range(2, 3);
        size_t ninputs = r.range(1, std::min<size_t>(ntasks, 4));
        switch (r.below(8)) {
        case 0:
        case 1:
        case 2:
        case 3: {
            static const uint32_t dens[] = {4, 16, 64, 256};
            p.set_knob("strategy", "random");
            p.set_knob("den", std::to_string(r.pick(dens)));
            break;
        }
        case 4:
        case 5:
        case 6:
            p.set_knob("strategy", "pct");
            p.set_knob("d", std::to_string(r.range(1, 3)));
            break;
        default: p.set_knob("strategy", "seq"); break;
        }
        p.set_knob("ntasks", std::to_string(ntasks));
        // which pass runs first: with "concurrent" the tasks meet library code that has
        // never run in this process (first-use initialisation) while they race
        p.set_knob("first", r.chance(1, 3) ? "concurrent" : "alone");
        p.set_knob("packed_cfg", std::to_string(r.below(1000)));
        for (size_t i = 0; i < ninputs; i++) {
            Op in;
            in.kind = "input";
            in.set("id", i);
            size_t n = r.chance(1, 2) ? r.range(1, 16) : r.range(1, 64);
            if (r.chance(1, 8)) n = r.range(65, 400); // e.g. more than 256 dictionary entries, several BP128 blocks
            int cls = (int)r.below(ARR_NCLASSES);
            if (bigrun) {
                n = r.chance(1, 2) ? r.range(4096, 4600) : r.range(10001, 10200);
                static const int big_cls[] = {ARR_POOL, ARR_FULL64, ARR_CLUSTERED, ARR_LOWCARD, ARR_PERIODIC, ARR_PERIODIC, ARR_PERIODIC, -1, -1};
                cls = r.pick(big_cls);
            }
            if (cls < 0) { // unsorted values inside one narrow window at an arbitrary base
                uint64_t base = r.chance(1, 2) ? r.below(1000) : (r.next() >> r.range(1, 40));
                uint64_t span = r.chance(1, 2) ? 60000 : r.range(300, 65000);
                auto &vv = in.mkarr("values");
                for (size_t q = 0; q < n; q++) vv.push_back(base + r.below(span));
            } else
                in.mkarr("values") = gen_array(r, n, cls);
            p.ops.push_back(in);
        }
        // a run focuses on a few call kinds so that several tasks are inside the same function
        std::vector<std::string> menu;
        size_t nk = r.range(1, 4);
        static const char *big_kinds[] = {"adaptive.rt", "adaptive.rt", "adaptive.analyze", "adaptive.analyze", "adaptive.forced", "dict.rt",
                                          "dict.rt", "pfor.rt", "for.rt", "rle.rt", "bp128.64", "bp128d.64", "deltau.rt"};
        if (bigrun) nk = r.range(1, 2);
        for (size_t i = 0; i < nk; i++) menu.push_back(bigrun ? std::string(r.pick(big_kinds)) : std::string(r.pick(call_kinds)));
        for (size_t t = 0; t < ntasks; t++) {
            size_t ncalls = bigrun ? 1 : r.range(1, 4);
            uint64_t own_input = r.below(ninputs);
            for (size_t j = 0; j < ncalls; j++) {
                Op c;
                c.kind = (bigrun || r.chance(4, 5)) ? menu[r.below(menu.size())] : std::string(r.pick(call_kinds));
                c.set("task", t);
                c.set("in", r.chance(1, 2) ? 0 : own_input); // inputs shared with probability 1/2
                if (c.kind == "adaptive.forced") c.set("enc", r.below(6));
                if (c.kind == "scalar.split") c.set("family", r.below(4));
                if (c.kind == "float.rt") {
                    c.set("precision", r.below(4));
                    c.set("mode", r.below(3));
                }
                if (c.kind == "pfor.rt") c.set("threshold", r.chance(1, 2) ? 95 : (r.chance(1, 2) ? 90 : 99));
                if (c.kind == "bitstream.slice") c.set("bits", r.below(64));
                if (c.kind == "decode.bad") c.set("cut", r.below(4096));
                if (r.chance(1, 3)) c.set("nometa", 1); // optional metadata outputs passed as NULL
                p.ops.push_back(c);
            }
        }
        return p;
    }

    Outcome execute(const Plan &plan) override {
        Outcome out;
        alloc::reset_run();
        alloc::set_fill(alloc::Fill::Garbage, plan.seed ^ 0x17);
        Shared sh;
        size_t ntasks = std::min<uint64_t>(plan.knob_u("ntasks", 2), 16);
        std::vector<std::vector<const Op *>> programs(ntasks);
        std::map<uint64_t, const Vals *> inputs;
        const Op *sched = nullptr;
        for (auto &op : plan.ops) {
            if (op.kind == "input" && op.arr("values") && !op.arr("values")->empty())
                inputs[op.u("id")] = op.arr("values");
            else if (op.kind == "schedule")
                sched = &op;
            else if (op.has("task") && op.u("task") < ntasks)
                programs[op.u("task")].push_back(&op);
        }
        // set-up phase (harness, before any task exists): admissible variants of the inputs
        std::vector<Vals> keep;
        keep.reserve(256);
        for (auto &prog : programs)
            for (auto *c : prog) {
                auto it = inputs.find(c->u("in"));
                if (it == inputs.end()) continue;
                Xform x = xform_of(c->kind, c->u("enc"));
                auto key = std::make_pair(c->u("in"), (int)x);
                if (sh.arrays.count(key)) continue;
                Vals v = apply_xform(*it->second, x);
                uint64_t *a = (uint64_t *)malloc(v.size() * 8 + 8);
                memcpy(a, v.data(), v.size() * 8);
                sh.arrays[key] = a;
                sh.lens[key] = v.size();
                if (c->kind == "dict.shared" && !sh.dicts.count(c->u("in"))) {
                    varintDict *dct = varintDictCreate();
                    if (dct && varintDictBuild(dct, a, v.size()) == 0)
                        sh.dicts[c->u("in")] = dct;
                    else if (dct)
                        varintDictFree(dct);
                }
            }
        sh.packed_cfg = plan.knob_u("packed_cfg", 0);
        sh.packed_bytes = 16 * 2 * 64 * 8 + 64;
        sh.packed = (uint8_t *)calloc(sh.packed_bytes, 1);
        sh.bitwords_n = 16 * 4 + 2;
        sh.bitwords = (uint64_t *)calloc(sh.bitwords_n, 8);
        sh.cells_bytes = 16 * 4 * 8 + 32;
        sh.cells = (uint8_t *)calloc(sh.cells_bytes, 1);
        {
            // the shared sorted packed array: built by the harness before any task exists
            const shim_packed_cfg &pc = shim_packed_cfgs[sh.packed_cfg % (uint64_t)shim_packed_ncfgs];
            uint64_t mask = pc.bits >= 64 ? ~0ULL : ((1ULL << pc.bits) - 1);
            Rng pr(plan.seed ^ 0x50ac);
            sh.sorted_len = (uint32_t)pr.range(2, 40);
            if (pc.max_elements && sh.sorted_len > (uint32_t)pc.max_elements) sh.sorted_len = (uint32_t)pc.max_elements;
            sh.sorted_bytes = ((size_t)(sh.sorted_len + 2) * (size_t)pc.bits + 7) / 8 + 32;
            sh.sorted_packed = (uint8_t *)calloc(sh.sorted_bytes, 1);
            const Vals *first = inputs.empty() ? nullptr : inputs.begin()->second;
            for (uint32_t i = 0; i < sh.sorted_len; i++) {
                uint64_t v = (first && i < first->size() && pr.chance(1, 2) ? (*first)[i] : pr.next()) & mask;
                pc.insert_sorted(sh.sorted_packed, i, v);
            }
        }
        auto digest_inputs = [&]() {
            Digest d;
            for (auto &kv : sh.arrays) d.bytes(kv.second, sh.lens[kv.first] * 8);
            for (auto &kv : sh.dicts) d.bytes(kv.second->values, (size_t)kv.second->size * 8);
            if (sh.sorted_packed) d.bytes(sh.sorted_packed, sh.sorted_bytes); // read-only for every task
            return d.h;
        };
        uint64_t in_before = digest_inputs();
        // ---- alone pass (before or after the concurrent pass, see knob "first")
        std::vector<std::vector<uint64_t>> alone(ntasks), conc(ntasks);
        bool concurrent_first = plan.knob("first", "alone") == "concurrent";
        size_t ncalls_total = 0;
        for (auto &prog : programs) ncalls_total += prog.size();
        auto alone_pass = [&]() {
            fiber::alone_steps_reset();
            memset(sh.packed, 0, sh.packed_bytes);
            memset(sh.bitwords, 0, sh.bitwords_n * 8);
            memset(sh.cells, 0, sh.cells_bytes);
            for (size_t t = 0; t < ntasks; t++)
                for (auto *c : programs[t]) {
                    ctx_note("task-alone call=" + c->kind);
                    alone[t].push_back(run_call(*c, sh, (int)t, (int)ntasks));
                }
            memset(sh.packed, 0, sh.packed_bytes);
            memset(sh.bitwords, 0, sh.bitwords_n * 8);
            memset(sh.cells, 0, sh.cells_bytes);
            return fiber::alone_steps();
        };
        uint64_t est = concurrent_first ? 3000 * (uint64_t)std::max<size_t>(ncalls_total, 1) : alone_pass();
        // ---- concurrent pass
        fiber::Config cfg;
        std::string strat = plan.knob("strategy", "random");
        cfg.seed = plan.seed;
        cfg.est_steps = std::max<uint64_t>(est, 1);
        // termination: a generous multiple of the measured solo cost; when the concurrent pass runs
        // first there is no measurement yet, so only a runaway loop can exceed the budget
        cfg.step_budget = concurrent_first ? 4000000000ULL : est * 16 + 4000000;
        if (sched && sched->arr("switches")) {
            cfg.strategy = fiber::REPLAY;
            cfg.replay = *sched->arr("switches");
        } else if (strat == "pct") {
            cfg.strategy = fiber::PCT;
            cfg.pct_d = (int)plan.knob_u("d", 1);
        } else if (strat == "seq")
            cfg.strategy = fiber::SEQUENTIAL;
        else {
            cfg.strategy = fiber::RANDOM;
            cfg.preempt_den = (uint32_t)std::max<uint64_t>(plan.knob_u("den", 64), 1);
        }
        std::vector<std::function<void()>> bodies;
        for (size_t t = 0; t < ntasks; t++)
            bodies.push_back([&, t]() {
                for (auto *c : programs[t]) conc[t].push_back(run_call(*c, sh, (int)t, (int)ntasks));
            });
        ctx_note("concurrent strategy=" + strat);
        fiber::Result fr = fiber::run(bodies, cfg);
        out.cases = 1;
        if (concurrent_first) {
            stat("runs_concurrent_pass_first");
            alone_pass();
        }
        uint64_t in_after = digest_inputs();
        // ---- event log
        g_log.u64(fr.steps);
        g_log.u64(fr.sched_hash);
        for (auto &v : conc)
            for (auto h : v) g_log.u64(h);
        g_log.u64(fr.conflict_count);
        out.hash = g_log.h;
        // ---- statistics
        stat("sched." + strat);
        stat("steps", fr.steps);
        stat("preemptions", fr.preemptions);
        stat("preemptions_inside_library_call", fr.preempt_in_call);
        stat("switches_leaving_two_tasks_in_same_function", fr.overlap_same_function);
        if (fr.overlap_same_function) stat("runs_with_two_tasks_in_same_function");
        for (auto pc : fr.overlap_functions) overlap_fn_[pc]++;
        for (auto h : fr.site_pairs) site_pairs_.insert(h);
        stat_max("max_tasks", ntasks);
        if (fr.trace_overflow) stat("trace_overflow_runs");
        if (fr.preempt_in_call) out.nontrivial.push_back(fr.sched_hash);
        for (auto &prog : programs)
            for (auto *c : prog) stat("call." + c->kind);
        // ---- oracles
        auto with_schedule = [&]() {
            Plan q = plan;
            q.ops.erase(std::remove_if(q.ops.begin(), q.ops.end(), [](const Op &o) { return o.kind == "schedule"; }),
                        q.ops.end());
            Op s;
            s.kind = "schedule";
            s.mkarr("switches") = fr.switches;
            q.ops.push_back(s);
            return q;
        };
        if (fr.deadlock) {
            out.cls = "deadlock";
            out.key = "deadlock";
            out.detail = "all unfinished tasks are blocked on simulated mutexes";
        } else if (fr.conflict_count) {
            const fiber::Conflict &c = fr.conflicts[0];
            std::string fa = fiber::symbolize(c.pc_a), fb = fiber::symbolize(c.pc_b);
            if (fb < fa) std::swap(fa, fb);
            out.cls = "conflict";
            out.key = "functions=" + fa + "," + fb;
            std::ostringstream o;
            o << fr.conflict_count << " conflicting access(es); first: task " << c.task_a
              << (c.a_write ? " wrote" : " read") << " a byte in " << fiber::symbolize(c.pc_a) << " and task "
              << c.task_b << (c.b_write ? " wrote" : " read") << " it in " << fiber::symbolize(c.pc_b)
              << " with no synchronisation in between (" << ntasks << " tasks, strategy " << strat << ")";
            out.detail = o.str();
        } else if (in_before != in_after) {
            out.cls = "shared-input-modified";
            out.key = "shared-input";
            out.detail = "a shared read-only input changed during the concurrent run";
        } else {
            for (size_t t = 0; t < ntasks && !out.violation(); t++)
                for (size_t j = 0; j < programs[t].size(); j++)
                    if (j >= conc[t].size() || conc[t][j] != alone[t][j]) {
                        out.cls = "result-differs-from-alone";
                        out.key = "call=" + programs[t][j]->kind;
                        out.detail = "task " + std::to_string(t) + " call " + std::to_string(j + 1) + " (" +
                                     op_to_text(*programs[t][j], 4) + ") returned a different result than when run alone";
                        break;
                    }
        }
        if (out.violation() && !sched) out.concrete_plan = with_schedule().to_text();
        for (auto &kv : sh.arrays) free(kv.second);
        for (auto &kv : sh.dicts) varintDictFree(kv.second);
        free(sh.packed);
        free(sh.bitwords);
        free(sh.cells);
        free(sh.sorted_packed);
        alloc::reset_run();
        return out;
    }

    std::string report_json() override {
        std::ostringstream o;
        o << "\"distinct_cross_task_function_pairs_per_worker\":{\"sum\":" << site_pairs_.size() << "}";
        // per function: switches that left two tasks inside it (top 12)
        std::vector<std::pair<uint64_t, uintptr_t>> v;
        for (auto &kv : overlap_fn_) v.push_back({kv.second, kv.first});
        std::sort(v.rbegin(), v.rend());
        o << ",\"two_tasks_in_same_function\":{";
        std::map<std::string, uint64_t> byname;
        for (size_t i = 0; i < v.size() && i < 12; i++) byname[fiber::symbolize(v[i].second)] += v[i].first;
        bool first = true;
        for (auto &kv : byname) {
            if (!first) o << ',';
            first = false;
            o << '"' << json_escape(kv.first) << "\":" << kv.second;
        }
        o << "}";
        return o.str();
    }
};

struct Reg {
    Reg() { register_engine(new FiberEngine()); }
} reg;
} // namespace
